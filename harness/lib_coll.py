"""Shared generators / executors / reference oracles for the utility collections
(OrderedSet, IdentitySet, immutabledict, LRUCache, unique_list).

Used by harness/props/c54.py (source mode vs Lean model) and harness/props/c55.py
(pure-Python source vs pre-built extension vs Lean model).  Nothing here imports
sqlalchemy: the classes under test are passed in as a namespace `ns` with
attributes OrderedSet, IdentitySet, immutabledict, LRUCache, unique_list.

Elements are small indices into POOL; all wire formats use the indices.
"""
import contextlib
import copy
import itertools
import pickle
import signal

# ints colliding modulo 8 / 16 / 32 so that builtin-set iteration order differs from both
# sorted order and insertion order, depending on the set's history
POOL = [0, 8, 16, 1, 9, 3, 24, 5, 32, 7]
IDX = {v: i for i, v in enumerate(POOL)}


def dots(l):
    return ".".join(str(x) for x in l)


class Hang(Exception):
    """raised by the watchdog inside an operation of the code under test that does not return"""


@contextlib.contextmanager
def watchdog(sec=2.0):
    def on_alarm(signum, frame):
        raise Hang()

    old = signal.signal(signal.SIGALRM, on_alarm)
    signal.setitimer(signal.ITIMER_REAL, sec)
    try:
        yield
    finally:
        signal.setitimer(signal.ITIMER_REAL, 0)
        signal.signal(signal.SIGALRM, old)


def exc_name(e):
    n = type(e).__name__
    return n if n in ("KeyError", "IndexError", "ValueError", "TypeError") else "Other:" + n


# ====================================================================== OrderedSet
# python-side argument kinds -> model kind letter
OS_KINDS = {
    "set": "S",
    "oset": "R",
    "dict": "D",
    "frozenset": "Z",
    "list": "Z",
    "tuple": "Z",
    "keys": "Z",
    "gen": "I",
    "iter": "I",
}
UNIQUE_KINDS = ("set", "dict", "frozenset", "keys")

OS_BINARY_NEW = {  # op -> (method name, operator or None)
    "union": ("union", "|"),
    "inter": ("intersection", "&"),
    "diff": ("difference", "-"),
    "symdiff": ("symmetric_difference", "^"),
}
OS_BINARY_INPLACE = {
    "update": ("update", "|="),
    "interu": ("intersection_update", "&="),
    "diffu": ("difference_update", "-="),
    "symdiffu": ("symmetric_difference_update", "^="),
}


def os_build_arg(ns, regs, a):
    """a = [kind, elems(indices)] or ["oset", regno] -> (python object, iteration order indices)"""
    kind = a[0]
    if kind == "oset":
        o = regs[a[1]]
        return o, [IDX[v] for v in list(o)]
    vals = [POOL[i] for i in a[1]]
    if kind == "set":
        o = set()
        for v in vals:  # insertion history matters for iteration order
            o.add(v)
        return o, [IDX[v] for v in o]
    if kind == "frozenset":
        o = frozenset(vals)
        return o, [IDX[v] for v in o]
    if kind == "dict":
        o = dict.fromkeys(vals, 1)
        return o, [IDX[v] for v in o]
    if kind == "keys":
        o = dict.fromkeys(vals, 1).keys()
        return o, [IDX[v] for v in o]
    if kind == "list":
        return list(vals), list(a[1])
    if kind == "tuple":
        return tuple(vals), list(a[1])
    if kind == "gen":
        return (v for v in vals), list(a[1])
    if kind == "iter":
        return iter(vals), list(a[1])
    raise ValueError(kind)


def os_arg_token(a, order):
    k = OS_KINDS[a[0]]
    if k == "R":
        return "R%d" % a[1]
    return k + dots(order)


def os_state(o):
    """(iteration list, builtin-set part) as index lists"""
    return [IDX[v] for v in list(o)], sorted(IDX[v] for v in set.__iter__(o))


def os_show_regs(regs):
    out = []
    for o in regs:
        l, s = os_state(o)
        out.append(dots(l) + ";" + dots(s))
    return "/".join(out)


def ref_first_occ(seq):
    out = []
    for x in seq:
        if x not in out:
            out.append(x)
    return out


def os_reference(op, cur, argorders):
    """Reference semantics of an insertion-ordered set on index lists.
    cur: dict reg -> list (no dups).  Returns (ret, target_reg, new_list) where ret is the
    expected return token."""
    name = op["op"]
    r = op.get("r")
    me = list(cur[r]) if r is not None else None
    if name == "new":
        if op["arg"] is None:
            return "-", op["dst"], []
        return "-", op["dst"], ref_first_occ(argorders[0])
    if name == "copy":
        return "-", op["dst"], me
    if name == "add":
        x = op["x"]
        return "-", r, me if x in me else me + [x]
    if name == "remove":
        x = op["x"]
        if x not in me:
            return "E:KeyError", r, me
        return "-", r, [y for y in me if y != x]
    if name == "discard":
        x = op["x"]
        return "-", r, [y for y in me if y != x]
    if name == "pop":
        if not me:
            return "E:KeyError", r, me
        return "v%d" % me[-1], r, me[:-1]
    if name == "insert":
        x = op["x"]
        if x in me:
            return "-", r, me
        me.insert(op["pos"], x)
        return "-", r, me
    if name == "clear":
        return "-", r, []
    if name == "getitem":
        try:
            return "v%d" % me[op["key"]], r, me
        except IndexError:
            return "E:IndexError", r, me
    if name == "contains":
        return ("T" if op["x"] in me else "F"), r, me
    if name == "len":
        return "v%d" % len(me), r, me
    sets = [set(o) for o in argorders]
    flat = [x for o in argorders for x in o]
    tgt = op["dst"] if name in OS_BINARY_NEW else r
    if name in ("update", "union"):
        return "-", tgt, me + [x for x in ref_first_occ(flat) if x not in me]
    if name in ("inter", "interu"):
        return "-", tgt, [x for x in me if all(x in s for s in sets)]
    if name in ("diff", "diffu"):
        return "-", tgt, [x for x in me if all(x not in s for s in sets)]
    if name in ("symdiff", "symdiffu"):
        return "-", tgt, [x for x in me if x not in sets[0]] + [x for x in ref_first_occ(flat) if x not in me]
    raise ValueError(name)


def os_op_token(op, argtoks):
    n = op["op"]
    if n == "new":
        return "new:%d:%s" % (op["dst"], "N" if op["arg"] is None else argtoks[0])
    if n == "copy":
        return "copy:%d:%d" % (op["dst"], op["r"])
    if n in ("add", "remove", "discard", "contains"):
        return "%s:%d:%d" % (n, op["r"], op["x"])
    if n in ("pop", "clear", "len"):
        return "%s:%d" % (n, op["r"])
    if n == "insert":
        return "insert:%d:%d:%d" % (op["r"], op["pos"], op["x"])
    if n == "getitem":
        return "getitem:%d:%d" % (op["r"], op["key"])
    args = ";".join(argtoks) if argtoks else "-"
    if n in OS_BINARY_NEW:
        return "%s:%d:%d:%s" % (n, op["dst"], op["r"], args)
    return "%s:%d:%s" % (n, op["r"], args)


def os_classify(op, argorders, what):
    n = op["op"]
    if n == "symdiffu" and op["args"] and op["args"][0][0] in ("list", "tuple", "gen", "iter"):
        o = argorders[0]
        if len(set(o)) < len(o) and what in ("list-set-out-of-sync", "order", "duplicates-in-iteration"):
            return "orderedset-symdiff-update-duplicate-input"
    al = op.get("args") or []
    kinds = al[0][0] if len(al) == 1 else ("multiarg" if al else "")
    if n == "new":
        kinds = "none" if op["arg"] is None else op["arg"][0]
    via = op.get("via", "method")
    return "orderedset-%s%s%s-%s" % (n, "-op" if via == "op" else "", ("-" + kinds) if kinds else "", what)


def os_run_sequence(ns, nregs, ops):
    """Execute on the real class.  Returns (trace tokens, request tokens, failure or None)
    failure = (key, detail, index of failing op)."""
    OrderedSet = ns.OrderedSet
    regs = [OrderedSet() for _ in range(nregs)]
    cur = {i: [] for i in range(nregs)}
    trace, req = [], []
    fail = None
    kept = []  # mutable arguments of earlier operations: [kind, object, snapshot, op index]
    for k, op in enumerate(ops):
        n = op["op"]
        alist = [op["arg"]] if n == "new" and op["arg"] is not None else list(op.get("args", []))
        built = [os_build_arg(ns, regs, a) for a in alist]
        argobjs = [b[0] for b in built]
        argorders = [b[1] for b in built]
        snapshots = [(a[0], list(o) if a[0] in ("list", "tuple") else (sorted(o) if a[0] in ("set", "frozenset") else None)) for a, o in zip(alist, argobjs)]
        req.append(os_op_token(op, [os_arg_token(a, o) for a, o in zip(alist, argorders)]))
        exp_ret, tgt, exp_list = os_reference(op, cur, argorders)
        ids_before = [id(o) for o in regs]
        r = op.get("r")
        me = regs[r] if r is not None else None
        via = op.get("via", "method")
        ret = "-"
        res = None
        newobj = None
        try:
            with watchdog():
                if n == "new":
                    newobj = OrderedSet() if op["arg"] is None else OrderedSet(argobjs[0])
                elif n == "copy":
                    if via == "copy":
                        newobj = copy.copy(me)
                    elif via == "deepcopy":
                        newobj = copy.deepcopy(me)
                    elif via == "pickle":
                        newobj = pickle.loads(pickle.dumps(me))
                    else:
                        newobj = me.copy()
                    shared = getattr(newobj, "_list", None)
                    if shared is not None and shared is getattr(me, "_list", object()):
                        key = "orderedset-copy-module-shares-list" if via == "copy" else os_classify(op, argorders, "copy-shares-list")
                        fail = fail or (key, "the copy's _list IS the original's _list", k)
                elif n == "add":
                    res = me.add(POOL[op["x"]])
                elif n == "remove":
                    res = me.remove(POOL[op["x"]])
                elif n == "discard":
                    res = me.discard(POOL[op["x"]])
                elif n == "pop":
                    v = me.pop()
                    ret = "v%d" % IDX[v]
                elif n == "insert":
                    res = me.insert(op["pos"], POOL[op["x"]])
                elif n == "clear":
                    res = me.clear()
                elif n == "getitem":
                    ret = "v%d" % IDX[me[op["key"]]]
                elif n == "contains":
                    ret = "T" if POOL[op["x"]] in me else "F"
                elif n == "len":
                    ret = "v%d" % len(me)
                elif n in OS_BINARY_NEW:
                    meth, sym = OS_BINARY_NEW[n]
                    if via == "op":
                        a = argobjs[0]
                        if sym == "|":
                            newobj = me | a
                        elif sym == "&":
                            newobj = me & a
                        elif sym == "-":
                            newobj = me - a
                        else:
                            newobj = me ^ a
                    elif via == "add":
                        newobj = me + argobjs[0]
                    else:
                        newobj = getattr(me, meth)(*argobjs)
                elif n in OS_BINARY_INPLACE:
                    meth, sym = OS_BINARY_INPLACE[n]
                    if via == "op":
                        a = argobjs[0]
                        x = me
                        if sym == "|=":
                            x |= a
                        elif sym == "&=":
                            x &= a
                        elif sym == "-=":
                            x -= a
                        else:
                            x ^= a
                        if x is not me:
                            fail = fail or (os_classify(op, argorders, "inplace-op-returns-other-object"), "in-place operator did not return self", k)
                    else:
                        res = getattr(me, meth)(*argobjs)
                else:
                    raise ValueError(n)
                if res is not None:
                    fail = fail or (os_classify(op, argorders, "return-not-none"), "returned %r" % (res,), k)
        except Exception as e:  # noqa: BLE001 - every exception is an observation
            ret = "E:" + exc_name(e)
        if ret == "E:Other:Hang":
            fail = (os_classify(op, argorders, "does-not-terminate"), "operation did not return within the watchdog time", k)
            trace.append(ret + "@")
            break
        if newobj is not None:
            if type(newobj) is not OrderedSet:
                fail = fail or (os_classify(op, argorders, "result-type"), "result type %s" % type(newobj).__name__, k)
                trace.append("E:Other:type@" )
                break
            if any(newobj is o for o in regs):
                fail = fail or (os_classify(op, argorders, "result-aliases-operand"), "result is an existing object", k)
            regs[op["dst"]] = newobj
        # ---- observe
        try:
            trace.append(ret + "@" + os_show_regs(regs))
        except Exception as e:  # noqa: BLE001
            trace.append("E:Other:observe@")
            fail = fail or (os_classify(op, argorders, "unobservable"), repr(e), k)
            break
        # ---- direct oracle: reference insertion-ordered set
        if ret != exp_ret:
            fail = fail or (os_classify(op, argorders, "return-or-exception"), "returned %s expected %s" % (ret, exp_ret), k)
        if not ret.startswith("E:") or exp_ret.startswith("E:"):
            cur[tgt] = exp_list
        else:
            cur[tgt] = exp_list
        for i, o in enumerate(regs):
            l, s = os_state(o)
            exp = cur[i]
            if len(set(l)) != len(l):
                fail = fail or (os_classify(op, argorders, "duplicates-in-iteration"), "reg %d iterates %s" % (i, l), k)
            elif sorted(l) != s or len(o) != len(l):
                fail = fail or (os_classify(op, argorders, "list-set-out-of-sync"), "reg %d iterates %s but set part %s len %d" % (i, l, s, len(o)), k)
            elif sorted(l) != sorted(exp):
                what = "members" if i == tgt else "other-object-changed"
                fail = fail or (os_classify(op, argorders, what), "reg %d = %s expected %s" % (i, l, exp), k)
            elif l != exp:
                what = "order" if i == tgt else "other-object-changed"
                fail = fail or (os_classify(op, argorders, what), "reg %d = %s expected %s" % (i, l, exp), k)
        for (kind, snap), o in zip(snapshots, argobjs):
            if snap is not None:
                now = list(o) if kind in ("list", "tuple") else sorted(o)
                if now != snap:
                    fail = fail or (os_classify(op, argorders, "argument-mutated"), "%s arg %s -> %s" % (kind, snap, now), k)
        # ---- independence of results and arguments (no shared mutable state in either direction):
        # an argument of an EARLIER operation must never change afterwards ...
        for kind, o, snap, k0 in kept:
            now = list(o) if kind == "list" else sorted(o)
            if now != snap:
                fail = fail or (os_classify(op, argorders, "earlier-argument-mutated"), "%s argument of op %d: %s -> %s" % (kind, k0, snap, now), k)
        # ... and mutating this operation's arguments now must not be visible in any set
        if not fail:
            for a, o in zip(alist, argobjs):
                if a[0] == "list":
                    o.append(POOL[(len(o) + k) % len(POOL)])
                    o.reverse()
                    kept.append(["list", o, list(o), k])
                elif a[0] == "set":
                    o.symmetric_difference_update({POOL[k % len(POOL)], POOL[(k + 1) % len(POOL)]})
                    kept.append(["set", o, sorted(o), k])
                elif a[0] == "dict":
                    o[POOL[k % len(POOL)]] = 2
                    o.pop(next(iter(o)))
                    kept.append(["dict", o, sorted(o), k])
            try:
                for i, o in enumerate(regs):
                    l, st = os_state(o)
                    if l != cur[i] or sorted(l) != st:
                        fail = fail or (os_classify(op, argorders, "state-shared-with-argument"), "after mutating the argument afterwards reg %d = %s;%s expected %s" % (i, l, st, cur[i]), k)
            except Exception as e:  # noqa: BLE001
                fail = fail or (os_classify(op, argorders, "state-shared-with-argument"), repr(e), k)
        if fail:
            break
    return trace, req, fail


def unique_list_check(ns, form, seq):
    """unique_list(iterable): value, type, and FRESHNESS of the result — it must be a new list,
    independent of the argument under later mutation of either side.  Returns (result, alias flag, failure)"""
    src = list(seq)
    if form == "list":
        arg = src
    elif form == "tuple":
        arg = tuple(src)
    elif form == "iter":
        arg = iter(src)
    elif form == "gen":
        arg = (x for x in src)
    elif form == "dict":
        arg = dict.fromkeys(src, 1)
    elif form == "set":
        arg = set(src)
    else:
        raise ValueError(form)
    exp = ref_first_occ(list(arg)) if form in ("dict", "set") else ref_first_occ(seq)
    try:
        got = ns.unique_list(arg)
    except Exception as e:  # noqa: BLE001 - the code under test raising is an observation
        return "E:" + exc_name(e), False, ["unique-list-raises", "unique_list(%s %r) raised %r" % (form, seq, e)]
    fail = None
    alias = got is arg
    if type(got) is not list or got != exp:
        fail = ["unique-list-first-occurrence", "unique_list(%s %r) = %r" % (form, seq, got)]
    elif alias:
        fail = ["unique-list-result-aliases-argument", "unique_list(%s %r) returned the argument object itself" % (form, seq)]
    else:
        snap = list(got)
        if form == "list":
            arg.append(99)
            arg.reverse()
        elif form == "dict":
            arg[99] = 1
        elif form == "set":
            arg.add(99)
        if got != snap:
            fail = ["unique-list-result-aliases-argument", "mutating the argument afterwards changed the result %r -> %r" % (snap, got)]
        else:
            before = list(arg) if form == "list" else None
            got.append(98)
            if before is not None and list(arg) != before:
                fail = ["unique-list-result-aliases-argument", "mutating the result changed the argument"]
            got.pop()
        # a second call must build another fresh object
        if fail is None and form in ("list", "tuple"):
            again = ns.unique_list(arg)
            if again is got or again is arg:
                fail = ["unique-list-result-aliases-argument", "second call returned an existing object"]
    return got, alias, fail


def os_gen_arg(rng, nregs, allow_reg=True, maxlen=4, nelem=6):
    kinds = ["set", "list", "list", "tuple", "gen", "iter", "frozenset", "dict", "keys"]
    if allow_reg:
        kinds += ["oset", "oset", "oset"]
    k = rng.choice(kinds)
    if k == "oset":
        return ["oset", rng.randrange(nregs)]
    n = rng.choice([0, 1, 2, 2, 3, 3, 4, maxlen])
    el = [rng.randrange(nelem) for _ in range(n)]
    if k in UNIQUE_KINDS:
        el = ref_first_occ(el)
    elif n >= 2 and rng.random() < 0.4:
        el[rng.randrange(n)] = el[rng.randrange(n)]  # force a duplicate
    return [k, el]


def os_gen_op(rng, nregs, nelem=6):
    r = rng.randrange(nregs)
    w = rng.random()
    x = rng.randrange(nelem)
    if w < 0.08:
        a = None if rng.random() < 0.15 else os_gen_arg(rng, nregs)
        return {"op": "new", "dst": r, "arg": a}
    if w < 0.12:
        return {"op": "copy", "dst": r, "r": rng.randrange(nregs), "via": rng.choice(["method", "method", "copy", "deepcopy", "pickle"])}
    if w < 0.20:
        return {"op": "add", "r": r, "x": x}
    if w < 0.26:
        return {"op": "remove", "r": r, "x": x}
    if w < 0.31:
        return {"op": "discard", "r": r, "x": x}
    if w < 0.36:
        return {"op": "pop", "r": r}
    if w < 0.43:
        return {"op": "insert", "r": r, "pos": rng.choice([0, 1, 2, 3, -1, -2, -3, 5, 9, -9]), "x": x}
    if w < 0.45:
        return {"op": "clear", "r": r}
    if w < 0.49:
        return {"op": "getitem", "r": r, "key": rng.choice([0, 1, 2, -1, -2, 4, -5, 7])}
    if w < 0.52:
        return {"op": "contains", "r": r, "x": x}
    if w < 0.54:
        return {"op": "len", "r": r}
    name = rng.choice(["union", "inter", "diff", "symdiff", "update", "interu", "diffu", "symdiffu", "symdiffu", "symdiff"])
    op = {"op": name, "r": r}
    if name in OS_BINARY_NEW:
        op["dst"] = rng.randrange(nregs)
    single = name in ("symdiff", "symdiffu")
    via = "method"
    if rng.random() < 0.3:
        via = "op"
    elif name == "union" and rng.random() < 0.15:
        via = "add"
    op["via"] = via
    if single or via != "method":
        op["args"] = [os_gen_arg(rng, nregs)]
    else:
        op["args"] = [os_gen_arg(rng, nregs) for _ in range(rng.choice([0, 1, 1, 1, 2, 2, 3]))]
    return op


def os_gen_sequence(rng, maxlen=10):
    nregs = rng.choice([1, 2, 2, 3])
    n = rng.randint(3, maxlen)
    ops = []
    # start by filling some registers so that algebra is non-trivial
    for r in range(nregs):
        if rng.random() < 0.8:
            ops.append({"op": "new", "dst": r, "arg": os_gen_arg(rng, nregs, allow_reg=False)})
    while len(ops) < n:
        ops.append(os_gen_op(rng, nregs))
    return nregs, ops


def os_exhaustive_single(kinds=("set", "list", "gen", "oset"), universe=3, maxarg=3):
    """every binary method x every self (ordered subset of `universe` elements, built from a
    list) x every argument list over universe+1 elements up to maxarg long (duplicates
    included) x argument kinds.  Yields (nregs, ops)."""
    selves = []
    for k in range(universe + 1):
        for p in itertools.permutations(range(universe), k):
            selves.append(list(p))
    args = []
    for k in range(maxarg + 1):
        for p in itertools.product(range(universe + 1), repeat=k):
            args.append(list(p))
    names = ["union", "inter", "diff", "symdiff", "update", "interu", "diffu", "symdiffu"]
    for me in selves:
        for a in args:
            for kind in kinds:
                if kind in UNIQUE_KINDS or kind == "oset":
                    if len(set(a)) != len(a):
                        continue
                for name in names:
                    pre = [{"op": "new", "dst": 0, "arg": ["list", me]}]
                    if kind == "oset":
                        pre.append({"op": "new", "dst": 1, "arg": ["list", a]})
                        arg = ["oset", 1]
                    else:
                        arg = [kind, a]
                    for via in (("method", "op") if kind in ("set", "oset", "frozenset") else ("method",)):
                        op = {"op": name, "r": 0, "args": [arg], "via": via}
                        if name in OS_BINARY_NEW:
                            op["dst"] = 2
                        yield 3, pre + [op]


def os_predicate_checks(ns, universe=3, maxarg=3):
    """OrderedSet predicates and comparisons against the builtin set, small scope, always run:
    issubset / issuperset / isdisjoint x argument kinds (duplicates included), == != <= < >= >
    against set / frozenset / OrderedSet.  Returns [(key, case, detail)]."""
    out = []
    selves = [list(p) for k in range(universe + 1) for p in itertools.permutations(range(universe), k)]
    args = [list(p) for k in range(maxarg + 1) for p in itertools.product(range(universe + 1), repeat=k)]
    mk = {"list": list, "tuple": tuple, "iter": iter, "set": set, "frozenset": frozenset, "keys": lambda v: dict.fromkeys(v, 1).keys(),
          "oset": lambda v: ns.OrderedSet(v)}
    cmps = {"eq": lambda x, y: x == y, "ne": lambda x, y: x != y, "le": lambda x, y: x <= y, "lt": lambda x, y: x < y,
            "ge": lambda x, y: x >= y, "gt": lambda x, y: x > y}
    for me in selves:
        ref = set(POOL[i] for i in me)
        for a in args:
            vals = [POOL[i] for i in a]
            for kind, f in mk.items():
                for name in ("issubset", "issuperset", "isdisjoint"):
                    o = ns.OrderedSet(POOL[i] for i in me)
                    try:
                        got = getattr(o, name)(f(vals))
                    except Exception as e:  # noqa: BLE001
                        got = "E:" + exc_name(e)
                    exp = getattr(ref, name)(set(vals))
                    if got is not exp or [IDX[v] for v in o] != me:
                        out.append(("orderedset-%s-%s-differs-from-set" % (name, kind), {"kind": "oset-pred", "self": me, "arg": a, "argkind": kind, "op": name}, "got %r expected %r, self now %s" % (got, exp, list(o))))
                if kind in ("set", "frozenset", "oset"):
                    for name, c in cmps.items():
                        o = ns.OrderedSet(POOL[i] for i in me)
                        try:
                            got = (c(o, f(vals)), c(f(vals), o))
                        except Exception as e:  # noqa: BLE001
                            got = "E:" + exc_name(e)
                        exp = (c(ref, set(vals)), c(set(vals), ref))
                        if got != exp:
                            out.append(("orderedset-%s-%s-differs-from-set" % (name, kind), {"kind": "oset-pred", "self": me, "arg": a, "argkind": kind, "op": name}, "got %r expected %r" % (got, exp)))
    return out


# ====================================================================== IdentitySet
class _EqAll:
    """every instance compares equal to every other and hashes alike: an equality-keyed
    container would conflate them, an identity-keyed one must not"""

    __slots__ = ("n",)

    def __init__(self, n):
        self.n = n

    def __eq__(self, other):
        return isinstance(other, _EqAll)

    def __ne__(self, other):
        return not isinstance(other, _EqAll)

    def __hash__(self):
        return 7

    def __repr__(self):
        return "o%d" % self.n


def is_pool():
    """8 objects: equal-but-distinct hashables, and two unhashable lists"""
    pool = [_EqAll(i) for i in range(6)] + [[], []]
    return pool, {id(o): i for i, o in enumerate(pool)}


IS_NEW = {"union": ("union", "|"), "diff": ("difference", "-"), "inter": ("intersection", "&"), "symdiff": ("symmetric_difference", "^")}
IS_INPLACE = {
    "update": ("update", "|="),
    "diffu": ("difference_update", "-="),
    "interu": ("intersection_update", "&="),
    "symdiffu": ("symmetric_difference_update", "^="),
}


def is_build_arg(pool, regs, a):
    kind = a[0]
    if kind == "idset":
        return regs[a[1]]
    objs = [pool[i] for i in a[1]]
    if kind == "list":
        return list(objs)
    if kind == "tuple":
        return tuple(objs)
    if kind == "gen":
        return (o for o in objs)
    if kind == "iter":
        return iter(objs)
    if kind == "values":
        # a sized, non-sequence view that can hold the same object several times
        return dict(enumerate(objs)).values()
    if kind == "keys":
        # keys view: equality-keyed, so equal-but-distinct objects collapse (the actual content is
        # read back by the caller)
        return dict.fromkeys(objs, 1).keys()
    raise ValueError(kind)


def is_reference(op, cur, argids):
    n = op["op"]
    r = op.get("r")
    me = list(cur[r]) if r is not None else None
    if n == "new":
        return "-", op["dst"], ([] if op["arg"] is None else ref_first_occ(argids))
    if n == "copy":
        return "-", op["dst"], me
    x = op.get("x")
    if n == "add":
        return "-", r, me if x in me else me + [x]
    if n == "remove":
        if x not in me:
            return "E:KeyError", r, me
        return "-", r, [y for y in me if y != x]
    if n == "discard":
        return "-", r, [y for y in me if y != x]
    if n == "pop":
        if not me:
            return "E:KeyError", r, me
        return "v%d" % me[-1], r, me[:-1]
    if n == "clear":
        return "-", r, []
    if n == "contains":
        return ("T" if x in me else "F"), r, me
    if n == "len":
        return "v%d" % len(me), r, me
    if n in ("eq", "ne", "lt", "gt"):
        o = set(cur[op["o"]])
        s = set(me)
        res = {"eq": s == o, "ne": s != o, "lt": s < o, "gt": s > o}[n]
        return ("T" if res else "F"), r, me
    a = set(argids)
    if n == "issubset":
        return ("T" if set(me) <= a else "F"), r, me
    if n == "issuperset":
        return ("T" if set(me) >= a else "F"), r, me
    tgt = op["dst"] if n in IS_NEW else r
    if n in ("update", "union"):
        return "-", tgt, me + [y for y in ref_first_occ(argids) if y not in me]
    if n in ("diff", "diffu"):
        return "-", tgt, [y for y in me if y not in a]
    if n in ("inter", "interu"):
        return "-", tgt, [y for y in me if y in a]
    if n in ("symdiff", "symdiffu"):
        return "-", tgt, [y for y in me if y not in a] + [y for y in ref_first_occ(argids) if y not in me]
    raise ValueError(n)


def is_op_token(op, argtok):
    n = op["op"]
    if n == "new":
        return "new:%d:%s" % (op["dst"], "N" if op["arg"] is None else argtok)
    if n == "copy":
        return "copy:%d:%d" % (op["dst"], op["r"])
    if n in ("add", "remove", "discard", "contains"):
        return "%s:%d:%d" % (n, op["r"], op["x"])
    if n in ("pop", "clear", "len"):
        return "%s:%d" % (n, op["r"])
    if n in ("eq", "ne", "lt", "gt"):
        return "%s:%d:%d" % (n, op["r"], op["o"])
    if n in IS_NEW:
        return "%s:%d:%d:%s" % (n, op["dst"], op["r"], argtok)
    return "%s:%d:%s" % (n, op["r"], argtok)


def is_classify(op, what):
    n = op["op"]
    if n == "symdiffu" and op.get("via") == "op" and what in ("members", "order"):
        return "identityset-ixor-noop"
    a = op.get("arg") if n == "new" else op.get("a")
    kind = ("-" + a[0]) if a else ""
    return "identityset-%s%s%s-%s" % (n, "-op" if op.get("via") == "op" else "", kind, what)


def is_run_sequence(ns, nregs, ops):
    IdentitySet = ns.IdentitySet
    pool, idx = is_pool()
    regs = [IdentitySet() for _ in range(nregs)]
    cur = {i: [] for i in range(nregs)}
    trace, req, fail = [], [], None

    def show():
        return "/".join(dots([idx[id(o)] for o in s]) for s in regs)

    for k, op in enumerate(ops):
        n = op["op"]
        a = op.get("arg") if n == "new" else op.get("a")
        argobj = argids = argtok = None
        if a is not None:
            argobj = is_build_arg(pool, regs, a)
            if a[0] == "idset":
                argids = [idx[id(o)] for o in argobj]
                argtok = "R%d" % a[1]
            else:
                argids = [idx[id(o)] for o in argobj] if a[0] == "keys" else list(a[1])
                argtok = "L" + dots(argids)
        req.append(is_op_token(op, argtok))
        exp_ret, tgt, exp_list = is_reference(op, cur, argids or [])
        r = op.get("r")
        me = regs[r] if r is not None else None
        via = op.get("via", "method")
        ret, res, newobj = "-", None, None
        try:
            with watchdog():
                if n == "new":
                    newobj = IdentitySet() if a is None else IdentitySet(argobj)
                elif n == "copy":
                    newobj = me.copy() if via == "method" else me.__copy__()
                elif n == "add":
                    res = me.add(pool[op["x"]])
                elif n == "remove":
                    res = me.remove(pool[op["x"]])
                elif n == "discard":
                    res = me.discard(pool[op["x"]])
                elif n == "pop":
                    ret = "v%d" % idx[id(me.pop())]
                elif n == "clear":
                    res = me.clear()
                elif n == "contains":
                    ret = "T" if pool[op["x"]] in me else "F"
                elif n == "len":
                    ret = "v%d" % len(me)
                elif n in ("eq", "ne", "lt", "gt"):
                    o = regs[op["o"]]
                    b = {"eq": lambda: me == o, "ne": lambda: me != o, "lt": lambda: me < o, "gt": lambda: me > o}[n]()
                    if b is not True and b is not False:
                        fail = fail or (is_classify(op, "comparison-not-bool"), repr(b), k)
                    ret = "T" if b else "F"
                elif n in ("issubset", "issuperset"):
                    if via == "op":
                        b = (me <= argobj) if n == "issubset" else (me >= argobj)
                    else:
                        b = getattr(me, n)(argobj)
                    ret = "T" if b else "F"
                elif n in IS_NEW:
                    meth, sym = IS_NEW[n]
                    if via == "op":
                        newobj = {"|": lambda: me | argobj, "-": lambda: me - argobj, "&": lambda: me & argobj, "^": lambda: me ^ argobj}[sym]()
                    else:
                        newobj = getattr(me, meth)(argobj)
                elif n in IS_INPLACE:
                    meth, sym = IS_INPLACE[n]
                    if via == "op":
                        x = me
                        if sym == "|=":
                            x |= argobj
                        elif sym == "-=":
                            x -= argobj
                        elif sym == "&=":
                            x &= argobj
                        else:
                            x ^= argobj
                        if x is not me:
                            fail = fail or (is_classify(op, "inplace-op-returns-other-object"), "", k)
                    else:
                        res = getattr(me, meth)(argobj)
                else:
                    raise ValueError(n)
                if res is not None:
                    fail = fail or (is_classify(op, "return-not-none"), repr(res), k)
        except Exception as e:  # noqa: BLE001
            ret = "E:" + exc_name(e)
        if ret == "E:Other:Hang":
            fail = (is_classify(op, "does-not-terminate"), "operation did not return within the watchdog time", k)
            trace.append(ret + "@")
            break
        if newobj is not None:
            if type(newobj) is not IdentitySet:
                fail = fail or (is_classify(op, "result-type"), type(newobj).__name__, k)
                trace.append("E:Other:type@")
                break
            if any(newobj is o for o in regs):
                fail = fail or (is_classify(op, "result-aliases-operand"), "", k)
            regs[op["dst"]] = newobj
        try:
            trace.append(ret + "@" + show())
        except Exception as e:  # noqa: BLE001
            trace.append("E:Other:observe@")
            fail = fail or (is_classify(op, "unobservable"), repr(e), k)
            break
        if ret != exp_ret:
            fail = fail or (is_classify(op, "return-or-exception"), "returned %s expected %s" % (ret, exp_ret), k)
        cur[tgt] = exp_list
        for i, s in enumerate(regs):
            l = [idx[id(o)] for o in s]
            exp = cur[i]
            if len(set(l)) != len(l) or len(s) != len(l):
                fail = fail or (is_classify(op, "object-held-twice"), "reg %d iterates %s len %d" % (i, l, len(s)), k)
            elif sorted(l) != sorted(exp):
                fail = fail or (is_classify(op, "members" if i == tgt else "other-object-changed"), "reg %d = %s expected %s" % (i, l, exp), k)
            elif l != exp:
                fail = fail or (is_classify(op, "order" if i == tgt else "other-object-changed"), "reg %d = %s expected %s" % (i, l, exp), k)
            elif any((pool[j] in s) != (j in exp) for j in range(len(pool))):
                fail = fail or (is_classify(op, "contains-disagrees-with-iteration"), "reg %d" % i, k)
        # independence: the argument is not mutated, and mutating it afterwards is invisible
        if not fail and isinstance(argobj, list):
            if [idx[id(o)] for o in argobj] != argids:
                fail = fail or (is_classify(op, "argument-mutated"), "list argument %s -> %s" % (argids, [idx[id(o)] for o in argobj]), k)
            else:
                argobj.append(pool[k % len(pool)])
                argobj.reverse()
                del argobj[1:]
                for i, s in enumerate(regs):
                    if [idx[id(o)] for o in s] != cur[i]:
                        fail = fail or (is_classify(op, "state-shared-with-argument"), "reg %d changed when the argument was mutated afterwards" % i, k)
        if fail:
            break
    return trace, req, fail


def is_foreign_checks(ns):
    """behaviour with non-IdentitySet operands and the unhashable protocol (oracle only).
    Returns list of (key, detail)."""
    IdentitySet = ns.IdentitySet
    pool, idx = is_pool()
    out = []
    s = IdentitySet(pool[:3])
    for name, f in [
        ("or", lambda: s | pool[:2]),
        ("and", lambda: s & pool[:2]),
        ("sub", lambda: s - pool[:2]),
        ("xor", lambda: s ^ pool[:2]),
        ("le", lambda: s <= pool[:2]),
        ("lt", lambda: s < pool[:2]),
        ("ge", lambda: s >= pool[:2]),
        ("gt", lambda: s > pool[:2]),
        ("hash", lambda: hash(s)),
    ]:
        try:
            f()
            out.append(("identityset-%s-foreign-operand-no-typeerror" % name, "no TypeError"))
        except TypeError:
            pass
        except Exception as e:  # noqa: BLE001
            out.append(("identityset-%s-foreign-operand-wrong-exception" % name, repr(e)))
    for name, f in [("ior", "|="), ("iand", "&="), ("isub", "-="), ("ixor", "^=")]:
        t = IdentitySet(pool[:3])
        try:
            exec("t %s other" % f, {"t": t, "other": pool[:2]})
            out.append(("identityset-%s-foreign-operand-no-typeerror" % name, "no TypeError"))
        except TypeError:
            pass
        except Exception as e:  # noqa: BLE001
            out.append(("identityset-%s-foreign-operand-wrong-exception" % name, repr(e)))
        if [idx[id(o)] for o in t] != [0, 1, 2]:
            out.append(("identityset-%s-foreign-operand-mutated" % name, str([idx[id(o)] for o in t])))
    if (s == pool[:3]) is not False or (s != pool[:3]) is not True:
        out.append(("identityset-eq-foreign-operand", "== list should be False"))
    if [idx[id(o)] for o in s] != [0, 1, 2]:
        out.append(("identityset-foreign-operand-mutated", ""))
    return out


def is_gen_arg(rng, nregs, npool=8):
    k = rng.choice(["list", "list", "tuple", "gen", "iter", "idset", "idset", "idset"])
    if k == "idset":
        return ["idset", rng.randrange(nregs)]
    n = rng.choice([0, 1, 2, 3, 3, 4, 5])
    el = [rng.randrange(npool) for _ in range(n)]
    if n >= 2 and rng.random() < 0.4:
        el[rng.randrange(n)] = el[rng.randrange(n)]
    return [k, el]


def is_gen_sequence(rng, maxlen=10):
    nregs = rng.choice([1, 2, 2, 3])
    ops = []
    for r in range(nregs):
        if rng.random() < 0.8:
            a = is_gen_arg(rng, nregs)
            if a[0] == "idset":
                a = ["list", [rng.randrange(8) for _ in range(3)]]
            ops.append({"op": "new", "dst": r, "arg": a})
    n = rng.randint(3, maxlen)
    while len(ops) < n:
        r = rng.randrange(nregs)
        x = rng.randrange(8)
        w = rng.random()
        if w < 0.06:
            ops.append({"op": "new", "dst": r, "arg": None if rng.random() < 0.2 else is_gen_arg(rng, nregs)})
        elif w < 0.10:
            ops.append({"op": "copy", "dst": r, "r": rng.randrange(nregs), "via": rng.choice(["method", "dunder"])})
        elif w < 0.18:
            ops.append({"op": "add", "r": r, "x": x})
        elif w < 0.24:
            ops.append({"op": "remove", "r": r, "x": x})
        elif w < 0.29:
            ops.append({"op": "discard", "r": r, "x": x})
        elif w < 0.34:
            ops.append({"op": "pop", "r": r})
        elif w < 0.36:
            ops.append({"op": "clear", "r": r})
        elif w < 0.39:
            ops.append({"op": "contains", "r": r, "x": x})
        elif w < 0.41:
            ops.append({"op": "len", "r": r})
        elif w < 0.49:
            ops.append({"op": rng.choice(["eq", "ne", "lt", "gt"]), "r": r, "o": rng.randrange(nregs)})
        elif w < 0.56:
            a = is_gen_arg(rng, nregs)
            via = "op" if a[0] == "idset" and rng.random() < 0.5 else "method"
            ops.append({"op": rng.choice(["issubset", "issuperset"]), "r": r, "a": a, "via": via})
        else:
            name = rng.choice(["union", "diff", "inter", "symdiff", "update", "diffu", "interu", "symdiffu", "symdiffu"])
            a = is_gen_arg(rng, nregs)
            via = "op" if a[0] == "idset" and rng.random() < 0.5 else "method"
            op = {"op": name, "r": r, "a": a, "via": via}
            if name in IS_NEW:
                op["dst"] = rng.randrange(nregs)
            ops.append(op)
    return nregs, ops


def is_exhaustive_single(kinds=("list", "tuple", "iter", "values", "keys", "idset"), universe=3, maxarg=3):
    """small-scope, always-run block: every binary IdentitySet operation and comparison
    (issubset / issuperset / <= / >= / == / != / < / >, union / intersection / difference /
    symmetric_difference and their in-place forms, methods and operators) x every self over
    `universe` objects (sizes 0..universe, one reversed order) x EVERY argument sequence over
    universe+1 objects up to `maxarg` long — duplicated references ([a, a], [a, b, a]) included —
    x argument kinds.  Yields (nregs, ops)."""
    selves = []
    for k in range(universe + 1):
        for p in itertools.combinations(range(universe), k):
            selves.append(list(p))
    selves.append(list(range(universe))[::-1])
    args = []
    for k in range(maxarg + 1):
        for p in itertools.product(range(universe + 1), repeat=k):
            args.append(list(p))
    for me in selves:
        pre0 = [{"op": "new", "dst": 0, "arg": ["list", me]}]
        for a in args:
            dup = len(set(a)) != len(a)
            for kind in kinds:
                if kind == "idset":
                    if dup:
                        continue
                    pre = pre0 + [{"op": "new", "dst": 1, "arg": ["list", a]}]
                    arg = ["idset", 1]
                    vias = ("method", "op")
                elif kind == "keys":
                    if len(a) > 1:
                        continue  # the pool objects are all equal: a keys view holds at most one
                    pre, arg, vias = pre0, ["keys", a], ("method",)
                else:
                    pre, arg, vias = pre0, [kind, a], ("method",)
                for via in vias:
                    # the predicates first (they do not change anything), then each operation on a fresh self
                    preds = [{"op": n, "r": 0, "a": arg, "via": via} for n in ("issubset", "issuperset")]
                    if kind == "idset" and via == "op":
                        preds += [{"op": n, "r": 0, "o": 1} for n in ("eq", "ne", "lt", "gt")]
                        preds += [{"op": n, "r": 1, "o": 0} for n in ("lt", "gt")]
                    if kind in ("iter", "gen"):
                        for q in preds:  # one-shot iterators: one predicate per sequence
                            yield 3, pre + [q]
                    else:
                        yield 3, pre + preds
                    for name in ("union", "inter", "diff", "symdiff", "update", "interu", "diffu", "symdiffu"):
                        op = {"op": name, "r": 0, "a": arg, "via": via}
                        if name in IS_NEW:
                            op["dst"] = 2
                        yield 3, pre + [op]


# ====================================================================== immutabledict
def kv_tok(items):
    return ",".join("%d:%d" % (k, v) for k, v in items) if items else "-"


class _PlainMapping:
    """a Mapping that is not a dict (takes the `dict.update(result, d)` branch)"""

    def __init__(self, items):
        self._d = dict(items)

    def keys(self):
        return self._d.keys()

    def __getitem__(self, k):
        return self._d[k]

    def __len__(self):
        return len(self._d)

    def __iter__(self):
        return iter(self._d)


def id_build_other(ns, spec):
    """spec = ["none"] | [kind, items] with kind in imm/dict/odict/proxy/mapping"""
    import collections
    import types as _types

    kind = spec[0]
    if kind == "none":
        return None
    items = [tuple(p) for p in spec[1]]
    if kind == "imm":
        return ns.immutabledict(items)
    if kind == "dict":
        return dict(items)
    if kind == "odict":
        return collections.OrderedDict(items)
    if kind == "proxy":
        return _types.MappingProxyType(dict(items))
    if kind == "mapping":
        return _PlainMapping(items)
    raise ValueError(kind)


def id_other_token(spec):
    if spec[0] == "none":
        return "N"
    return ("I" if spec[0] == "imm" else "O") + (kv_tok(spec[1]) if spec[1] else "")


def id_items(d):
    if isinstance(d, _PlainMapping):
        return list(d._d.items())
    return list(d.items())


def id_run_union(ns, case):
    if any(sp[0] == "self" for sp in case["others"]):
        return _id_run_union_self(ns, case)
    return _id_run_union(ns, case)


def _id_run_union_self(ns, case):
    """`d.union(..., d, ...)`: the immutabledict itself among the arguments"""
    real = ns.immutabledict
    holder = {}

    class _NS:
        pass

    def imm(items=()):
        return real(items)

    # build `me` first, then let id_build_other hand it back for the "self" specs
    me = real([tuple(p) for p in case["self"]])
    holder["me"] = me
    orig_build = id_build_other

    def build(ns2, spec):
        if spec[0] == "self":
            return me
        return orig_build(ns2, spec)

    others = [build(ns, sp) for sp in case["others"]]
    before_me = list(me.items())
    toks = [("I" + (kv_tok(before_me) if before_me else "")) if sp[0] == "self" else id_other_token(sp) for sp in case["others"]]
    req = "immdict union %s %s" % (kv_tok(before_me), ";".join(toks) or "-")
    key = lambda what: "immutabledict-%s-self-argument-%s" % (case["via"], what)  # noqa: E731
    try:
        res = getattr(me, case["via"])(*others)
    except Exception as e:  # noqa: BLE001
        return "E:" + exc_name(e), req, (key("raises"), repr(e))
    got = list(res.items())
    expected = {}
    expected.update(before_me)
    for o in others:
        if o:
            expected.update(o if not isinstance(o, _PlainMapping) else o._d)
    nonempty_others = [o for o in others if o]
    which = "fresh"
    if res is me:
        which = "self"
    else:
        for i, o in enumerate(others):
            if res is o:
                which = "arg%d" % i
                break
    line = "%s %s" % (which, kv_tok(got))
    fail = None
    if type(res) is not real:
        fail = (key("result-not-immutabledict"), type(res).__name__)
    elif got != list(expected.items()):
        fail = (key("wrong-items"), "got %s expected %s" % (got, list(expected.items())))
    elif list(me.items()) != before_me:
        fail = (key("self-mutated"), "")
    elif res is me and nonempty_others and before_me and any(o is not me for o in nonempty_others):
        fail = (key("returned-self-although-other-contents"), "")
    return line, req, fail


def _id_run_union(ns, case):
    """case = {"self": items, "others": [spec...], "via": union|merge_with}
    returns (impl line, request line, fail)"""
    immutabledict = ns.immutabledict
    me = immutabledict([tuple(p) for p in case["self"]])
    others = [id_build_other(ns, s) for s in case["others"]]
    before_me = list(me.items())
    before = [None if o is None else id_items(o) for o in others]
    req = "immdict union %s %s" % (kv_tok(before_me), ";".join(id_other_token(s) for s in case["others"]) or "-")
    fail = None
    key = lambda what: "immutabledict-%s-%s" % (case["via"], what)  # noqa: E731
    try:
        res = getattr(me, case["via"])(*others)
    except Exception as e:  # noqa: BLE001
        return "E:" + exc_name(e), req, (key("raises"), repr(e))
    which = "fresh"
    if res is me:
        which = "self"
    else:
        for i, o in enumerate(others):
            if res is o:
                which = "arg%d" % i
                break
    try:
        got = list(res.items())
    except Exception as e:  # noqa: BLE001
        return "E:Other:items", req, (key("result-unusable"), repr(e))
    line = "%s %s" % (which, kv_tok(got))
    expected = {}
    expected.update(before_me)
    for b in before:
        if b:
            expected.update(b)
    if type(res) is not immutabledict:
        fail = (key("result-not-immutabledict"), "type %s" % type(res).__name__)
    elif dict(got) != expected:
        fail = (key("wrong-items"), "got %s expected %s" % (got, list(expected.items())))
    elif got != list(expected.items()):
        fail = (key("wrong-key-order"), "got %s expected %s" % (got, list(expected.items())))
    elif list(me.items()) != before_me:
        fail = (key("self-mutated"), "self %s -> %s" % (before_me, list(me.items())))
    else:
        for i, (o, b) in enumerate(zip(others, before)):
            if o is not None and id_items(o) != b:
                fail = (key("argument-mutated"), "arg %d %s -> %s" % (i, b, id_items(o)))
    return line, req, fail


def id_run_or(ns, case):
    """case = {"self": items, "other": spec or ["bad"], "via": "or"|"ror"}"""
    immutabledict = ns.immutabledict
    me = immutabledict([tuple(p) for p in case["self"]])
    before_me = list(me.items())
    spec = case["other"]
    key = lambda what: "immutabledict-%s-%s-%s" % (case["via"], spec[0], what)  # noqa: E731
    if spec[0] == "bad":
        other, tok, exp = [(1, 2)], "X", None
    else:
        other = id_build_other(ns, spec)
        tok = id_other_token(spec)
        exp = dict(before_me)
        if case["via"] == "or":
            exp.update(other)
        else:
            exp = dict(other)
            exp.update(before_me)
    req = "immdict %s %s %s" % (case["via"], kv_tok(before_me), tok)
    before_o = list(other.items()) if isinstance(other, dict) else None
    try:
        res = (me | other) if case["via"] == "or" else (other | me)
    except TypeError:
        return "E:TypeError", req, (None if exp is None else (key("raises"), "TypeError"))
    except Exception as e:  # noqa: BLE001
        return "E:" + exc_name(e), req, (key("raises"), repr(e))
    got = list(res.items())
    line = "fresh " + kv_tok(got)
    fail = None
    if exp is None:
        fail = (key("no-typeerror"), "got %r" % (res,))
    elif type(res) is not immutabledict or res is me or res is other:
        fail = (key("result-not-fresh-immutabledict"), "type %s" % type(res).__name__)
    elif got != list(exp.items()):
        fail = (key("wrong-items"), "got %s expected %s" % (got, list(exp.items())))
    elif list(me.items()) != before_me or (before_o is not None and list(other.items()) != before_o):
        fail = (key("operand-mutated"), "")
    return line, req, fail


def id_immutability_checks(ns, items):
    """every mutator raises TypeError and leaves the contents alone; copy/pickle/ctor"""
    import pickle

    immutabledict = ns.immutabledict
    d = immutabledict(items)
    before = list(d.items())
    out = []
    k0 = items[0][0] if items else 99

    def ior():
        x = d
        x |= {77: 1}

    muts = [
        ("setitem", lambda: d.__setitem__(k0, 5)),
        ("setitem-new", lambda: d.__setitem__(98, 5)),
        ("delitem", lambda: d.__delitem__(k0)),
        ("clear", lambda: d.clear()),
        ("pop", lambda: d.pop(k0)),
        ("pop-default", lambda: d.pop(k0, None)),
        ("popitem", lambda: d.popitem()),
        ("setdefault", lambda: d.setdefault(97, 1)),
        ("setdefault-existing", lambda: d.setdefault(k0, 1)),
        ("update", lambda: d.update({96: 1})),
        ("update-kw", lambda: d.update(a=1)),
        ("update-empty", lambda: d.update()),
        ("ior", ior),
        ("setattr", lambda: setattr(d, "foo", 1)),
    ]
    for name, f in muts:
        try:
            f()
            out.append(("immutabledict-%s-no-typeerror" % name, "mutator did not raise"))
        except TypeError:
            pass
        except Exception as e:  # noqa: BLE001
            out.append(("immutabledict-%s-wrong-exception" % name, repr(e)))
        if list(d.items()) != before:
            out.append(("immutabledict-%s-mutated" % name, "%s -> %s" % (before, list(d.items()))))
            d = immutabledict(items)
    if d.copy() is not d:
        out.append(("immutabledict-copy-not-self", ""))
    if d.union() is not d or d.merge_with() is not d:
        out.append(("immutabledict-union-noargs-not-self", ""))
    c = immutabledict(dict(items))
    if list(c.items()) != before or c != d or dict(d) != dict(items):
        out.append(("immutabledict-constructor", ""))
    try:
        p = pickle.loads(pickle.dumps(d))
        if type(p) is not immutabledict or list(p.items()) != before:
            out.append(("immutabledict-pickle-roundtrip", repr(p)))
    except Exception as e:  # noqa: BLE001
        out.append(("immutabledict-pickle-roundtrip", repr(e)))
    if repr(d) != "immutabledict(%s)" % dict.__repr__(dict(items)):
        out.append(("immutabledict-repr", repr(d)))
    return out


def id_gen_items(rng, maxn=3, nkeys=5):
    n = rng.choice([0, 0, 1, 1, 2, 2, maxn])
    keys = rng.sample(range(nkeys), min(n, nkeys))
    return [[k, rng.randrange(10)] for k in keys]


def id_gen_other(rng):
    kind = rng.choice(["none", "imm", "imm", "imm", "dict", "dict", "odict", "proxy", "mapping", "self"])
    if kind == "self":
        return ["self"]
    if kind == "none":
        return ["none"]
    return [kind, id_gen_items(rng)]


def id_gen_union_case(rng):
    return {
        "self": id_gen_items(rng),
        "others": [id_gen_other(rng) for _ in range(rng.choice([0, 1, 1, 2, 2, 3, 4]))],
        "via": rng.choice(["union", "merge_with"]),
    }


def id_exhaustive_union():
    """self in {empty, {0:1}} x all argument lists up to length 3 over a small alphabet"""
    alpha = [["none"], ["imm", []], ["imm", [[0, 2]]], ["imm", [[1, 3], [0, 4]]], ["dict", []], ["dict", [[0, 5]]], ["mapping", [[2, 6]]]]
    for me in ([], [[0, 1]], [[2, 9], [0, 1]]):
        for n in range(0, 4):
            for combo in itertools.product(alpha, repeat=n):
                yield {"self": me, "others": [list(c) for c in combo], "via": "union"}


# ====================================================================== LRUCache
def lru_state(c, alerts):
    ents = []
    for k, item in c._data.items():
        ents.append("%d:%d:%d" % (item[0] if item[0] == k else -1000 - k, item[1], item[2][0]))
    return "%d;%d;%s" % (c._counter, alerts[0], ",".join(ents))


def lru_op_token(op):
    n = op[0]
    if n in ("get", "getitem", "del", "in"):
        return "%s:%d" % (n, op[1])
    if n in ("set", "setdefault"):
        return "%s:%d:%d" % (n, op[1], op[2])
    if n == "pop":
        return "pop:%d:%d" % (op[1], op[2])
    return n


def lru_run_sequence(ns, cfg, ops):
    """cfg = {"cap":, "num":, "den":, "alert": bool}; ops = [[name, ...], ...]"""
    cap, num, den = cfg["cap"], cfg["num"], cfg["den"]
    thr = num / den
    alerts = [0]

    def on_alert(cache):
        alerts[0] += 1

    c = ns.LRUCache(cap, threshold=thr, size_alert=on_alert if cfg["alert"] else None)
    bound_num = cap * den + cap * num  # len*den <= bound_num
    trace, req, fail = [], [], None
    # reference bookkeeping: last stored value per key, recency order (least recent first)
    stored, recency = {}, []
    key = lambda op, what: "lrucache-%s-%s" % (op[0], what)  # noqa: E731

    def use(k):
        if k in recency:
            recency.remove(k)
        recency.append(k)

    def ref_set(k, v):
        stored[k] = v
        use(k)
        if len(stored) * den > bound_num:
            keep = recency[len(recency) - cap :] if cap else []
            for kk in list(stored):
                if kk not in keep:
                    del stored[kk]
            recency[:] = keep

    for i, op in enumerate(ops):
        n = op[0]
        req.append(lru_op_token(op))
        ret = "-"
        exp = "-"
        try:
            with watchdog():
                if n == "get":
                    if len(op) > 2 and op[2] == "default":
                        r = c.get(op[1], -7)  # explicit default
                        r = None if r == -7 else r
                    elif len(op) > 2 and op[2] == "default-stored":
                        # the default is a value currently stored under ANOTHER key
                        others = [item[1] for kk, item in c._data.items() if kk != op[1]]
                        dflt = others[0] if others else -7
                        missing = op[1] not in c._data
                        r = c.get(op[1], dflt)
                        r = None if (missing and r == dflt) else r
                    else:
                        r = c.get(op[1])
                    ret = "-" if r is None else "v%d" % r
                elif n == "getitem":
                    ret = "v%d" % c[op[1]]
                elif n == "set":
                    c[op[1]] = op[2]
                elif n == "del":
                    del c[op[1]]
                elif n == "in":
                    ret = "T" if op[1] in c else "F"
                elif n == "setdefault":
                    ret = "v%d" % c.setdefault(op[1], op[2])
                elif n == "pop":
                    r = c.pop(op[1], None) if op[2] else c.pop(op[1])
                    ret = "-" if r is None else "v%d" % r
                elif n == "popitem":
                    k, v = c.popitem()
                    ret = "p%d.%d" % (k, v)
                elif n == "clear":
                    c.clear()
                elif n == "len":
                    ret = "v%d" % len(c)
                else:
                    raise ValueError(n)
        except Exception as e:  # noqa: BLE001
            ret = "E:" + exc_name(e)
        if ret == "E:Other:Hang":
            fail = (key(op, "does-not-terminate"), "operation did not return within the watchdog time (cap %d thr %s)" % (cap, thr), i)
            trace.append(ret + "@")
            break
        # reference
        k = op[1] if len(op) > 1 else None
        if n == "get":
            exp = "v%d" % stored[k] if k in stored else "-"
            if k in stored:
                use(k)
        elif n == "getitem":
            exp = "v%d" % stored[k] if k in stored else "E:KeyError"
            if k in stored:
                use(k)
        elif n == "set":
            ref_set(k, op[2])
        elif n == "del":
            if k in stored:
                del stored[k]
                recency.remove(k)
            else:
                exp = "E:KeyError"
        elif n == "in":
            exp = "T" if k in stored else "F"
            if k in stored:
                use(k)
        elif n == "setdefault":
            if k in stored:
                exp = "v%d" % stored[k]
                use(k)
            else:
                exp = "v%d" % op[2]
                ref_set(k, op[2])
        elif n == "pop":
            if k in stored:
                exp = "v%d" % stored.pop(k)
                recency.remove(k)
            else:
                exp = "-" if op[2] else "E:KeyError"
        elif n == "popitem":
            exp = None  # which item: dict order, covered by the correspondence; checked below
            if not stored:
                exp = "E:KeyError"
            elif ret.startswith("p"):
                pk, pv = [int(x) for x in ret[1:].split(".")]
                if stored.get(pk) != pv:
                    fail = fail or (key(op, "returned-pair-not-stored"), "%s vs %s" % (ret, stored), i)
                else:
                    del stored[pk]
                    recency.remove(pk)
                    exp = ret
        elif n == "clear":
            stored.clear()
            del recency[:]
        elif n == "len":
            exp = "v%d" % len(stored)
        try:
            trace.append(ret + "@" + lru_state(c, alerts))
        except Exception as e:  # noqa: BLE001
            trace.append("E:Other:observe@")
            fail = fail or (key(op, "unobservable"), repr(e), i)
            break
        if exp is not None and ret != exp:
            what = "wrong-value-or-exception"
            if ret.startswith("v") and exp.startswith("v"):
                what = "returned-value-not-the-one-stored-under-key"
            fail = fail or (key(op, what), "returned %s expected %s (stored=%s)" % (ret, exp, stored), i)
        have = {kk: item[1] for kk, item in c._data.items()}
        if len(have) * den > bound_num and n in ("set", "setdefault"):
            fail = fail or (key(op, "size-over-bound"), "len %d cap %d thr %s" % (len(have), cap, thr), i)
        if have != stored:
            missing = set(stored) - set(have)
            extra = set(have) - set(stored)
            what = "contents"
            if missing and n in ("set", "setdefault"):
                what = "evicted-more-recent-entry"
            elif extra:
                what = "retained-entry-that-should-be-gone"
            fail = fail or (key(op, what), "cache %s reference %s (recency %s)" % (have, stored, recency), i)
        if list(c) != list(c._data) or len(c) != len(have) or sorted(c.values()) != sorted(have.values()):
            fail = fail or (key(op, "iter-len-values-inconsistent"), "", i)
        if fail:
            break
    return trace, req, fail


def lru_gen(rng, maxlen=16):
    cap = rng.choice([0, 1, 1, 2, 2, 3, 3, 4, 5])
    num, den = rng.choice([(0, 1), (1, 4), (1, 2), (1, 2), (1, 2), (3, 4), (1, 1), (3, 2), (2, 1)])
    cfg = {"cap": cap, "num": num, "den": den, "alert": rng.random() < 0.5}
    nkeys = max(2, int(cap * (1 + num / den)) + 2)
    ops = []
    val = [10]
    n = rng.randint(4, maxlen)
    for _ in range(n):
        k = rng.randrange(nkeys)
        w = rng.random()
        if w < 0.42:
            val[0] += 1
            ops.append(["set", k, val[0]])
        elif w < 0.57:
            ops.append(["get", k] + rng.choice([[], [], ["default"], ["default-stored"]]))
        elif w < 0.67:
            ops.append(["getitem", k])
        elif w < 0.73:
            ops.append(["del", k])
        elif w < 0.79:
            ops.append(["in", k])
        elif w < 0.86:
            val[0] += 1
            ops.append(["setdefault", k, val[0]])
        elif w < 0.91:
            ops.append(["pop", k, rng.randrange(2)])
        elif w < 0.95:
            ops.append(["popitem"])
        elif w < 0.97:
            ops.append(["clear"])
        else:
            ops.append(["len"])
    return cfg, ops


def lru_request(cfg, req):
    return "lru %d %d %d %d %s" % (cfg["cap"], cfg["num"], cfg["den"], 1 if cfg["alert"] else 0, " ".join(req))


# ====================================================================== small helpers of util/_collections.py
def misc_helper_checks(rng, n=300):
    """reference checks (oracle only) for the small collection helpers that sit beside the four
    classes: FacadeDict, UniqueAppender, has_dupes, flatten_iterator, to_list/to_set,
    update_copy, merge_lists_w_ordering, coerce_to_immutabledict, PopulateDict, Properties.
    Returns [(key, case, detail)]."""
    from sqlalchemy.util import _collections as C

    out = []

    def bad(name, case, detail):
        out.append(("util-%s" % name, {"kind": "misc", "name": name, "case": case}, detail))

    for _ in range(n):
        seq = [rng.randrange(5) for _ in range(rng.randint(0, 7))]
        objs = [[] for _ in range(5)]  # distinct objects that all compare (and print) equal, unhashable
        oseq = [objs[i] for i in seq]
        # has_dupes: identity based "occurs more than once"
        for t in range(5):
            exp = seq.count(t) > 1
            if C.has_dupes(oseq, objs[t]) is not exp:
                bad("has_dupes", [seq, t], "expected %s" % exp)
        # UniqueAppender: identity-unique append, order kept
        data = []
        ua = C.UniqueAppender(data)
        for o in oseq:
            ua.append(o)
        if [id(o) for o in data] != [id(objs[i]) for i in ref_first_occ(seq)] or list(ua) != data:
            bad("UniqueAppender", seq, "kept %d objects, expected %d" % (len(data), len(set(seq))))
        # flatten_iterator / to_list / to_set / update_copy
        nested = [seq[:2], tuple(seq[2:4]), (x for x in seq[4:6]), seq[6:]]
        if list(C.flatten_iterator(nested)) != seq:
            bad("flatten_iterator", seq, "")
        if list(C.flatten_iterator(["ab", ["cd", ["e"]]])) != ["ab", "cd", "e"]:
            bad("flatten_iterator-strings", [], "")
        if C.to_list(None) is not None or C.to_list(None, default=[1]) != [1] or C.to_list(3) != [3] or C.to_list("ab") != ["ab"]:
            bad("to_list", [], "scalars")
        l = list(seq)
        if C.to_list(l) is not l or C.to_list(tuple(seq)) != seq or C.to_set(seq) != set(seq) or C.to_set(None) != set():
            bad("to_list", seq, "iterables")
        d = {i: i for i in seq}
        d2 = C.update_copy(d, {9: 9}, x=1)
        if d2 != dict(d, **{"x": 1}) | {9: 9} or d2 is d or d != {i: i for i in seq}:
            bad("update_copy", seq, repr(d2))
        # merge_lists_w_ordering: every element once, relative order of each input respected
        # for elements appearing in only one of them / common elements keep a's relative order
        a = ref_first_occ([rng.randrange(8) for _ in range(rng.randint(0, 6))])
        b = ref_first_occ([rng.randrange(8) for _ in range(rng.randint(0, 6))])
        m = C.merge_lists_w_ordering(list(a), list(b))
        if sorted(m) != sorted(set(a) | set(b)) or len(m) != len(set(m)):
            bad("merge_lists_w_ordering-members", [a, b], repr(m))
        else:
            only_a = [x for x in m if x in a]
            if [x for x in only_a if x not in b] != [x for x in a if x not in b]:
                bad("merge_lists_w_ordering-order-a", [a, b], repr(m))
            if [x for x in m if x in b and x not in a] != [x for x in b if x not in a]:
                bad("merge_lists_w_ordering-order-b", [a, b], repr(m))
    # FacadeDict: not publicly mutable, _insert_item works, copy raises
    fd = C.FacadeDict()
    fd._insert_item("a", 1)
    for name, f in [("setitem", lambda: fd.__setitem__("b", 2)), ("delitem", lambda: fd.__delitem__("a")), ("clear", fd.clear),
                    ("pop", lambda: fd.pop("a")), ("popitem", fd.popitem), ("setdefault", lambda: fd.setdefault("c", 1)),
                    ("update", lambda: fd.update({"d": 1}))]:
        try:
            f()
            bad("FacadeDict-" + name, [], "mutator did not raise")
        except TypeError:
            pass
        except Exception as e:  # noqa: BLE001
            bad("FacadeDict-" + name, [], repr(e))
    if dict(fd) != {"a": 1}:
        bad("FacadeDict-contents", [], repr(dict(fd)))
    try:
        fd.copy()
        bad("FacadeDict-copy", [], "copy() did not raise")
    except NotImplementedError:
        pass
    # coerce_to_immutabledict / EMPTY_DICT
    e = C.coerce_to_immutabledict({})
    i1 = C.immutabledict({1: 2})
    if e is not C.EMPTY_DICT or C.coerce_to_immutabledict(i1) is not i1 or C.coerce_to_immutabledict({1: 2}) != i1 or type(C.coerce_to_immutabledict({1: 2})) is not C.immutabledict:
        bad("coerce_to_immutabledict", [], "")
    # PopulateDict / Properties
    calls = []
    pd = C.PopulateDict(lambda k: calls.append(k) or k * 2)
    if (pd[3], pd[3], pd[4], calls, dict(pd)) != (6, 6, 8, [3, 4], {3: 6, 4: 8}):
        bad("PopulateDict", [], repr((calls, dict(pd))))
    pr = C.OrderedProperties()
    pr["b"] = 1
    pr.a = 2
    if (list(pr), pr.keys(), pr.b, pr["a"], "a" in pr, len(pr), pr.get("z", 5)) != ([1, 2], ["b", "a"], 1, 2, True, 2, 5):
        bad("Properties", [], repr(pr.items()))
    ro = pr.as_readonly()
    try:
        ro["c"] = 1
        bad("ReadOnlyProperties", [], "setitem did not raise")
    except TypeError:
        pass
    return out


# ====================================================================== LRUCache under threads
def lrumt_gen(rng):
    """small programs: 2 threads x <=3 ops, or 3 threads x 1 op (the Lean driver explores every
    interleaving of the same programs)"""
    cap = rng.choice([1, 1, 2, 2, 3])
    num, den = rng.choice([(0, 1), (0, 1), (1, 2), (1, 1)])
    nkeys = cap + 2
    val = [10]

    def op():
        w = rng.random()
        if w < 0.55:
            val[0] += 1
            return ["set", rng.randrange(nkeys), val[0]]
        if w < 0.68:
            return ["del", rng.randrange(nkeys)]
        return ["get", rng.randrange(nkeys)]

    if rng.random() < 0.2:
        progs = [[op()] for _ in range(3)]
    else:
        progs = [[op() for _ in range(rng.randint(1, 3))] for _ in range(2)]
    if not any(o[0] == "set" for p in progs for o in p):
        progs[0][0] = ["set", 0, 99]
    return {"cap": cap, "num": num, "den": den}, progs


def lrumt_directed():
    """hand-picked races: a pruning writer against a deleter / an overwriter / a reader of the
    keys being pruned (run under many schedules each)"""
    return [
        ({"cap": 1, "num": 0, "den": 1}, [[["set", 0, 11], ["set", 1, 12]], [["del", 0]]]),
        ({"cap": 1, "num": 0, "den": 1}, [[["set", 0, 11], ["set", 1, 12]], [["del", 0], ["get", 1]]]),
        ({"cap": 2, "num": 0, "den": 1}, [[["set", 0, 11], ["set", 1, 12], ["set", 2, 13]], [["del", 0], ["del", 1]]]),
        ({"cap": 1, "num": 0, "den": 1}, [[["set", 0, 11], ["set", 1, 12]], [["get", 0], ["set", 0, 13]]]),
        ({"cap": 1, "num": 0, "den": 1}, [[["set", 0, 11], ["set", 1, 12]], [["set", 2, 13], ["get", 0]]]),
        ({"cap": 2, "num": 1, "den": 2}, [[["set", 0, 11], ["set", 1, 12], ["set", 2, 13]], [["set", 3, 14], ["get", 0], ["del", 1]]]),
    ]


def lrumt_run(ns, cfg, progs, strat):
    """run the programs on the real LRUCache, one greenlet per thread, under the cooperative
    scheduler (a switch is possible before every source line of util/_collections.py and at the
    try-lock / release of the cache mutex).  Returns dict(status, rets, data, failed, oracle)."""
    import random as _random

    from harness import lib_sched
    from sqlalchemy.util import _collections as C

    if strat[0] == "rand":
        chooser = lib_sched.RandomChooser(_random.Random(strat[1]), strat[2], 0.0)
    elif strat[0] == "pct":
        chooser = lib_sched.PCTChooser(_random.Random(strat[1]), len(progs), depth=strat[2], est_steps=40 * len(progs))
    else:
        chooser = lib_sched.ReplayChooser(strat[1])
    sched = lib_sched.Sched(chooser, trace_files=("util/_collections.py",), max_steps=20000)
    old = C.threading
    C.threading = sched.threading_shim()
    try:
        cache = ns.LRUCache(cfg["cap"], threshold=cfg["num"] / cfg["den"])
    finally:
        C.threading = old
    failed = [0]
    lock = cache._mutex
    real_acquire = lock.acquire

    def counting_acquire(blocking=True, timeout=-1):
        ok = real_acquire(blocking, timeout)
        if not ok:
            failed[0] += 1
        return ok

    lock.acquire = counting_acquire
    rets = [[] for _ in progs]
    errors = []

    def mk(i, prog):
        def fn(w):
            for op in prog:
                try:
                    if op[0] == "get":
                        rets[i].append((op[1], cache.get(op[1])))
                    elif op[0] == "del":
                        try:
                            del cache[op[1]]
                        except KeyError:
                            pass  # absent (never stored, evicted or deleted by another thread): fine
                    else:
                        cache[op[1]] = op[2]
                except lib_sched.SchedKilled:
                    raise
                except Exception as e:  # noqa: BLE001
                    errors.append("%s in thread %d op %s" % (type(e).__name__, i, op))

        return fn

    for i, p in enumerate(progs):
        sched.spawn(mk(i, p))
    status = sched.run()
    data = [(k, item[1]) for k, item in cache._data.items()]
    bad_item = [k for k, item in cache._data.items() if item[0] != k]
    # ---- direct oracle (the property itself, any interleaving)
    stored = {}
    for p in progs:
        for op in p:
            if op[0] == "set":
                stored.setdefault(op[1], set()).add(op[2])
    oracle = None
    if status != "done":
        oracle = ("lrucache-threads-does-not-finish", "scheduler result %s" % status)
    elif errors:
        oracle = ("lrucache-threads-exception", "; ".join(errors))
    elif bad_item:
        oracle = ("lrucache-threads-entry-under-wrong-key", "keys %s" % bad_item)
    else:
        for i, rs in enumerate(rets):
            for k, v in rs:
                if v is not None and v not in stored.get(k, ()):
                    oracle = ("lrucache-threads-get-returns-value-not-stored-under-key", "thread %d get(%d) -> %r, stored %s" % (i, k, v, sorted(stored.get(k, ()))))
        for k, v in data:
            if v not in stored.get(k, ()):
                oracle = oracle or ("lrucache-threads-holds-value-not-stored-under-key", "key %d holds %r" % (k, v))
        if oracle is None and lock.locked():
            oracle = ("lrucache-threads-mutex-left-locked", "")
        # size: len <= bound + failed try-locks (lru_mt_quiescent_bound; `failed` over-counts, which is safe)
        if oracle is None and (len(data) - failed[0]) * cfg["den"] > cfg["cap"] * cfg["den"] + cfg["cap"] * cfg["num"]:
            oracle = ("lrucache-threads-size-over-bound", "len %d, %d failed try-locks, capacity %d threshold %d/%d" % (len(data), failed[0], cfg["cap"], cfg["num"], cfg["den"]))
    return {"status": status, "rets": rets, "data": data, "failed": failed[0], "oracle": oracle,
            "choices": list(chooser.choices), "steps": sched.steps}


def lrumt_request(cfg, progs, rets, data):
    def prog_tok(p):
        return ",".join(("g%d" % o[1]) if o[0] == "get" else ("d%d" % o[1]) if o[0] == "del" else "s%d.%d" % (o[1], o[2]) for o in p) or "-"

    def rets_tok(rs):
        return ",".join("%d=%s" % (k, "N" if v is None else v) for k, v in rs) or "-"

    return "lrumt reach %d %d %d %s %s %s" % (
        cfg["cap"], cfg["num"], cfg["den"], "|".join(prog_tok(p) for p in progs),
        "|".join(rets_tok(r) for r in rets), ",".join("%d=%d" % kv for kv in data) or "-")
