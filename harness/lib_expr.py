"""Shared machinery for the M-EXPR properties (C01, C07).

A *user-level expression tree* ``U`` is a JSON-serialisable nested list naming the
expression-language API calls a user makes::

    ["col", "ia"] ["li", 3] ["ls", "x"] ["ln", "1.5"] ["null"] ["true"] ["false"]
    ["add"|"sub"|"mul"|"truediv"|"floordiv"|"mod"|"concat", a, b]   ["neg", a]
    ["eq"|"ne"|"lt"|"le"|"gt"|"ge"|"is"|"isnot"|"isdistinct"|"isnotdistinct", a, b]
    ["like"|"notlike"|"ilike"|"notilike", a, b, esc|None]
    ["between", x, lo, hi]     ["and", [..]]  ["or", [..]]  ["not", a]
    ["case", value|None, [[cond, result], ..], else|None]
    ["cast", "int"|"num"|"str"|"bool", a]   ["coalesce", [..]]   ["subq", a]
    ["in"|"notin", x, [python values]]

Four independent interpreters of ``U`` live here:

* ``to_sa``      builds the tree with the REAL sqlalchemy expression API
* ``ref_sql``    renders the *meaning* of the tree as fully parenthesised SQLite SQL
                 (every node in its own parentheses, literals inline) - the reference of
                 the direct oracle; written without looking at SQLAlchemy's grouping rules
* ``wire``       serialises the tree for the Lean driver (model ``build``/``render``/``parse``)
* ``utype``      static type of the tree's value (int/num/str/bool/null)
"""
from __future__ import annotations

import decimal
import json
import math
import warnings

COLS = {
    "ia": "int", "ib": "int", "ic": "int",
    "na": "num", "nb": "num",
    "sa": "str", "sb": "str",
    "ba": "bool", "bb": "bool",
}

ARITH = ("add", "sub", "mul", "truediv", "floordiv", "mod")
CMP = ("eq", "ne", "lt", "le", "gt", "ge")
ISOPS = ("is", "isnot", "isdistinct", "isnotdistinct")
LIKES = ("like", "notlike", "ilike", "notilike")
STROPS = ("contains", "startswith", "endswith", "icontains", "istartswith", "iendswith")
BINOPS = ARITH + ("concat",) + CMP + ISOPS

DIALECTS = ("sqlite", "postgresql", "mysql", "mariadb", "default")


# --------------------------------------------------------------------------- typing
def utype(u):
    k = u[0]
    if k == "col":
        return COLS[u[1]]
    if k in ("li", "pi"):
        return "int"
    if k == "ps":
        return "str"
    if k == "ln":
        return "num"
    if k == "ls":
        return "str"
    if k in ("true", "false", "lb"):
        return "bool"
    if k == "null":
        return "null"
    if k in ("add", "sub", "mul"):
        a, b = utype(u[1]), utype(u[2])
        if k == "add" and a == "str" and b == "str":
            return "str"
        return "num" if "num" in (a, b) else "int"
    if k == "truediv":
        return "num"
    if k == "floordiv":
        a, b = utype(u[1]), utype(u[2])
        return "num" if "num" in (a, b) else "int"
    if k == "mod":
        # no entry for % in Integer / Numeric._expression_adaptations: the left operand's type
        return utype(u[1])
    if k == "neg":
        return utype(u[1])
    if k == "concat":
        return "str"
    if k in CMP or k in ISOPS or k in LIKES or k in STROPS or k in ("between", "and", "or", "not", "in", "notin", "tin", "tnotin"):
        return "bool"
    if k == "case":
        # Case.__init__: the type of the LAST result that is not NullType, else of else_
        # (type inference is SQLAlchemy's documented rule; it decides how `//` is spelled)
        for _, r in reversed(u[2]):
            t = utype(r)
            if t != "null":
                return t
        return utype(u[3]) if u[3] is not None else "null"
    if k == "cast":
        return u[1]
    if k == "coalesce":
        # ReturnTypeFromArgs: the first argument that is not NullType
        for c in u[1]:
            t = utype(c)
            if t != "null":
                return t
        return "null"
    if k == "subq":
        return utype(u[1])
    raise ValueError(k)


def children(u):
    k = u[0]
    if k in ("col", "li", "ln", "ls", "lb", "null", "true", "false", "pi", "ps"):
        return []
    if k in BINOPS:
        return [u[1], u[2]]
    if k in LIKES or k in STROPS:
        return [u[1], u[2]]
    if k in ("neg", "not", "subq"):
        return [u[1]]
    if k == "between":
        return [u[1], u[2], u[3]]
    if k in ("and", "or", "coalesce"):
        return list(u[1])
    if k == "case":
        out = [] if u[1] is None else [u[1]]
        for c, r in u[2]:
            out += [c, r]
        if u[3] is not None:
            out.append(u[3])
        return out
    if k == "cast":
        return [u[2]]
    if k in ("in", "notin"):
        return [u[1]]
    if k in ("tin", "tnotin"):
        return list(u[1])
    raise ValueError(k)


def size(u):
    return 1 + sum(size(c) for c in children(u))


def depth(u):
    cs = children(u)
    return 1 + (max(depth(c) for c in cs) if cs else 0)


def ops_of(u, acc=None):
    acc = acc if acc is not None else []
    acc.append(u[0])
    for c in children(u):
        ops_of(c, acc)
    return acc


# --------------------------------------------------------------------------- real API
_SA = {}


def _sa():
    if not _SA:
        import sqlalchemy as sa
        from sqlalchemy import sql

        warnings.filterwarnings("ignore", message=".*operator classes.*")
        _SA["sa"] = sa
        _SA["types"] = {"int": sa.Integer, "num": sa.Numeric, "str": sa.String, "bool": sa.Boolean}
        _SA["cols"] = {n: sa.column(n, _SA["types"][t]()) for n, t in COLS.items()}
    return _SA


class Neutral:
    """Known-finding classifier support.  Building a tree with ``Neutral(rules)`` makes the
    grouping decisions named by ``rules`` explicit (wraps the operand in ``Grouping`` /
    uses the explicitly negated operator), so that the *only* difference to the normal
    build is the known-defective decision.  ``hits`` records which rules applied.

    A  a ``concat`` operand that is an arithmetic expression       (F1, SQLite only)
    B  ``~(a.is_(b))`` / ``~(a.is_not(b))`` with a general operand b
    C  a BETWEEN bound that is an operator expression
    D  an ``AsBoolean`` element used as operand of a binary/unary operator
    F  (not a finding) a float-typed ``+``/``*`` nested under the same operator: flattening
       re-associates floating point arithmetic, which the property is read modulo
    """

    def __init__(self, rules):
        self.rules = set(rules)
        self.hits = set()

    def operand(self, parent, pos, cu, ce, pu=None):
        from sqlalchemy.sql import elements as E

        if "A" in self.rules and parent == "concat" and cu[0] in ARITH and not (cu[0] == "add" and utype(cu) == "str"):
            self.hits.add("A")
            return E.Grouping(ce)
        if "C" in self.rules and parent == "between" and pos in (2, 3) and isinstance(
            ce, (E.OperatorExpression, E.UnaryExpression)
        ):
            self.hits.add("C")
            return E.Grouping(ce)
        if "F" in self.rules and parent in ("add", "mul") and cu[0] == parent and (
            utype(cu) == "num" or (pu is not None and utype(pu) == "num")
        ):
            # keep `a + (b + c)` / `a * (b * c)` nested: floating point + and * are not
            # exactly associative, re-association may legitimately change the last bits
            self.hits.add("F")
            # a bare Grouping proxies `.operator` and would be flattened away again
            return _SA["sa"].type_coerce(E.Grouping(ce), ce.type)
        if "D" in self.rules and isinstance(ce, E.AsBoolean):
            self.hits.add("D")
            return E.Grouping(ce)
        return ce


def to_sa(u, neutral=None, memo=None):
    """Build ``u`` with the real expression API (``neutral``: see ``Neutral``).
    ``memo`` (dict): identical sub-trees become ONE shared element object (DAG-shaped input)."""
    if memo is None:
        return _to_sa_impl(u, neutral, None)
    key = json.dumps(u)
    if key not in memo:
        memo[key] = _to_sa_impl(u, neutral, memo)
    return memo[key]


def _to_sa_impl(u, neutral, memo):
    S = _sa()
    sa = S["sa"]
    k = u[0]

    def sub(c):
        return to_sa(c, neutral, memo)

    def opd(pos):
        if u[pos][0] in ("pi", "ps"):
            return u[pos][1]  # a plain Python value: coerced by the operator implementation
        e = to_sa(u[pos], neutral, memo)
        if neutral is not None:
            e = neutral.operand(k, pos, u[pos], e, u)
        return e

    if k == "col":
        return S["cols"][u[1]]
    if k == "li":
        return sa.literal(int(u[1]))
    if k == "ln":
        return sa.literal(decimal.Decimal(u[1]))
    if k == "ls":
        return sa.literal(u[1])
    if k == "lb":
        return sa.literal(bool(u[1]))
    if k == "null":
        return sa.null()
    if k == "true":
        return sa.true()
    if k == "false":
        return sa.false()
    if k in BINOPS:
        a, b = opd(1), opd(2)
        if k == "add":
            return a + b
        if k == "sub":
            return a - b
        if k == "mul":
            return a * b
        if k == "truediv":
            return a / b
        if k == "floordiv":
            return a // b
        if k == "mod":
            return a % b
        if k == "concat":
            return a.concat(b)
        if k == "eq":
            return a == b
        if k == "ne":
            return a != b
        if k == "lt":
            return a < b
        if k == "le":
            return a <= b
        if k == "gt":
            return a > b
        if k == "ge":
            return a >= b
        if k == "is":
            return a.is_(b)
        if k == "isnot":
            return a.is_not(b)
        if k == "isdistinct":
            return a.is_distinct_from(b)
        if k == "isnotdistinct":
            return a.is_not_distinct_from(b)
    if k in LIKES:
        a, b = opd(1), opd(2)
        kw = {} if u[3] is None else {"escape": u[3]}
        return {"like": a.like, "notlike": a.not_like, "ilike": a.ilike, "notilike": a.not_ilike}[k](b, **kw)
    if k in STROPS:
        a, b = opd(1), opd(2)
        kw = {} if u[3] is None else {"escape": u[3]}
        return getattr(a, k)(b, **kw)
    if k == "neg":
        return -opd(1)
    if k == "not":
        c = sub(u[1])
        if neutral is not None and "B" in neutral.rules:
            from sqlalchemy.sql import elements as E, operators as O

            # the defect's signature on the built element: a binary IS / IS NOT whose negate
            # operator is the operator itself (whatever API path produced it)
            if isinstance(c, E.BinaryExpression) and c.operator in (O.is_, O.is_not) and c.negate is c.operator:
                neutral.hits.add("B")
                return c.left.is_not(c.right) if c.operator is O.is_ else c.left.is_(c.right)
        return ~c
    if k == "between":
        return opd(1).between(opd(2), opd(3))
    if k == "and":
        return sa.and_(*[sub(c) for c in u[1]])
    if k == "or":
        return sa.or_(*[sub(c) for c in u[1]])
    if k == "case":
        whens = [(sub(c), sub(r)) for (c, r) in u[2]]
        kw = {}
        if u[1] is not None:
            kw["value"] = sub(u[1])
        if u[3] is not None:
            kw["else_"] = sub(u[3])
        return sa.case(*whens, **kw)
    if k == "cast":
        return sa.cast(sub(u[2]), S["types"][u[1]])
    if k == "coalesce":
        return sa.func.coalesce(*[sub(c) for c in u[1]])
    if k == "subq":
        return sa.select(sub(u[1])).scalar_subquery()
    if k == "in":
        return opd(1).in_(list(u[2]))
    if k == "notin":
        return opd(1).not_in(list(u[2]))
    if k in ("tin", "tnotin"):
        t = sa.tuple_(*[sub(c) for c in u[1]])
        rows = [tuple(r) for r in u[2]]
        return t.in_(rows) if k == "tin" else t.not_in(rows)
    raise ValueError(k)


def sa_affinity(e):
    """model name of the SQLAlchemy type affinity of a built element"""
    S = _sa()
    sa = S["sa"]
    a = e.type._type_affinity
    if a is sa.Integer:
        return "int"
    if a is sa.Numeric:
        return "num"
    if a is sa.String:
        return "str"
    if a is sa.Boolean:
        return "bool"
    if e.type._isnull:
        return "null"
    return "other:" + str(a)


_DIALECT_OBJS = {}


def dialect(name):
    if name not in _DIALECT_OBJS:
        from sqlalchemy.engine import default
        from sqlalchemy.dialects import sqlite, postgresql, mysql

        if name == "sqlite":
            d = sqlite.dialect()
        elif name == "postgresql":
            d = postgresql.dialect()
        elif name == "mysql":
            d = mysql.dialect()
        elif name == "mariadb":
            from sqlalchemy.dialects.mysql import mariadb

            d = mariadb.MariaDBDialect()
        else:
            d = default.DefaultDialect()
        _DIALECT_OBJS[name] = d
    return _DIALECT_OBJS[name]


def compile_literal(e, dname):
    """rendered text with literal_binds on the given dialect (no execution)"""
    with warnings.catch_warnings():
        warnings.simplefilter("ignore")
        return str(e.compile(dialect=dialect(dname), compile_kwargs={"literal_binds": True}))


# --------------------------------------------------------------------------- reference SQL
def sql_str(s):
    return "'" + s.replace("'", "''") + "'"


def sql_val(v):
    if v is None:
        return "NULL"
    if isinstance(v, bool):
        return "1" if v else "0"
    if isinstance(v, int):
        return str(v) if v >= 0 else "(%d)" % v
    if isinstance(v, str):
        return sql_str(v)
    if isinstance(v, (list, tuple)):
        return "(" + ", ".join(sql_val(x) for x in v) + ")"
    raise ValueError(v)


_CAST_SQLITE = {"int": "INTEGER", "num": "NUMERIC", "str": "VARCHAR", "bool": "BOOLEAN"}
_CMP_SQL = {"eq": "=", "ne": "!=", "lt": "<", "le": "<=", "gt": ">", "ge": ">="}


def ref_sql(u):
    """Meaning of ``u`` as fully parenthesised SQLite SQL (reference of the oracle).

    Per-node forms are SQLite's (true division ``a / (b + 0.0)``, IS / IS NOT for the
    null-safe comparisons, ``lower()`` for ilike); *every* node is parenthesised, so the
    value of this text does not depend on any precedence or associativity rule."""
    k = u[0]
    r = ref_sql
    if k == "col":
        return u[1]
    if k in ("li", "pi"):
        return sql_val(int(u[1]))
    if k == "ps":
        return sql_str(u[1])
    if k == "ln":
        return u[1] if not u[1].startswith("-") else "(%s)" % u[1]
    if k == "ls":
        return sql_str(u[1])
    if k == "lb":
        return "1" if u[1] else "0"
    if k == "null":
        return "NULL"
    if k == "true":
        return "1"
    if k == "false":
        return "0"
    if k in ("add", "sub", "mul", "mod"):
        a, b = u[1], u[2]
        if k == "add" and utype(a) == "str" and utype(b) == "str":
            return "(%s || %s)" % (r(a), r(b))
        return "(%s %s %s)" % (r(a), {"add": "+", "sub": "-", "mul": "*", "mod": "%"}[k], r(b))
    if k == "truediv":
        return "(%s / (%s + 0.0))" % (r(u[1]), r(u[2]))
    if k == "floordiv":
        if utype(u[1]) == "int" and utype(u[2]) == "int":
            return "(%s / %s)" % (r(u[1]), r(u[2]))
        return "FLOOR(%s / %s)" % (r(u[1]), r(u[2]))
    if k == "neg":
        return "(-%s)" % r(u[1])
    if k == "concat":
        return "(%s || %s)" % (r(u[1]), r(u[2]))
    if k in CMP:
        a, b = u[1], u[2]
        # the API defines ==/!= against the NULL constant as IS NULL / IS NOT NULL
        if b[0] == "null" and k in ("eq", "ne"):
            return "(%s %s NULL)" % (r(a), "IS" if k == "eq" else "IS NOT")
        return "(%s %s %s)" % (r(a), _CMP_SQL[k], r(b))
    if k in ("is", "isnotdistinct"):
        return "(%s IS %s)" % (r(u[1]), r(u[2]))
    if k in ("isnot", "isdistinct"):
        return "(%s IS NOT %s)" % (r(u[1]), r(u[2]))
    if k in LIKES:
        a, b = r(u[1]), r(u[2])
        if k in ("ilike", "notilike"):
            a, b = "lower(%s)" % a, "lower(%s)" % b
        esc = "" if u[3] is None else " ESCAPE " + sql_str(u[3])
        core = "(%s LIKE %s%s)" % (a, b, esc)
        return core if k in ("like", "ilike") else "(NOT %s)" % core
    if k in STROPS:
        a, b = r(u[1]), r(u[2])
        if k.startswith("i"):
            a, b = "lower(%s)" % a, "lower(%s)" % b
        base = k.lstrip("i") if k.startswith("i") else k
        pat = {"contains": "('%%' || %s || '%%')", "startswith": "(%s || '%%')", "endswith": "('%%' || %s)"}[base] % b
        esc = "" if u[3] is None else " ESCAPE " + sql_str(u[3])
        return "(%s LIKE %s%s)" % (a, pat, esc)
    if k == "not":
        return "(NOT %s)" % r(u[1])
    if k == "between":
        return "(%s BETWEEN %s AND %s)" % (r(u[1]), r(u[2]), r(u[3]))
    if k in ("and", "or"):
        # and_()/or_() of the boolean constants only: identity element semantics
        parts = [r(c) for c in u[1]]
        return "(" + (" AND " if k == "and" else " OR ").join(parts) + ")"
    if k == "case":
        s = "(CASE"
        if u[1] is not None:
            s += " " + r(u[1])
        for c, res in u[2]:
            s += " WHEN %s THEN %s" % (r(c), r(res))
        if u[3] is not None:
            s += " ELSE " + r(u[3])
        return s + " END)"
    if k == "cast":
        return "CAST(%s AS %s)" % (r(u[2]), _CAST_SQLITE[u[1]])
    if k == "coalesce":
        return "coalesce(%s)" % ", ".join(r(c) for c in u[1])
    if k == "subq":
        return "(SELECT %s)" % r(u[1])
    if k in ("in", "notin"):
        x = r(u[1])
        vals = u[2]
        if not vals:
            # OR over the empty set of equalities is FALSE (for every x, NULL included)
            core = "(0)"
        else:
            core = "(" + " OR ".join("(%s = %s)" % (x, sql_val(v)) for v in vals) + ")"
        return core if k == "in" else "(NOT %s)" % core
    if k in ("tin", "tnotin"):
        xs = [r(c) for c in u[1]]
        rows = u[2]
        if not rows:
            core = "(0)"
        else:
            core = "(" + " OR ".join(
                "(" + " AND ".join("(%s = %s)" % (x, sql_val(v)) for x, v in zip(xs, row)) + ")" for row in rows
            ) + ")"
        return core if k == "tin" else "(NOT %s)" % core
    raise ValueError(k)


# --------------------------------------------------------------------------- wire format
def enc_str(s):
    return "s:" + ".".join(str(ord(c)) for c in s)


def wire(u):
    """prefix token list for the Lean driver (see lean/SaVerif/Drv/Expr.lean)"""
    k = u[0]
    if k == "col":
        return ["col", u[1], COLS[u[1]]]
    if k == "li":
        return ["li", str(int(u[1]))]
    if k == "pi":
        return ["pi", str(int(u[1]))]
    if k == "ps":
        return ["ps", enc_str(u[1])]
    if k == "ln":
        return ["ln", enc_str(u[1])]
    if k == "ls":
        return ["ls", enc_str(u[1])]
    if k == "lb":
        return ["lb", "1" if u[1] else "0"]
    if k in ("null", "true", "false"):
        return [k]
    if k in BINOPS:
        return [k] + wire(u[1]) + wire(u[2])
    if k in LIKES or k in STROPS:
        return [k, "N" if u[3] is None else enc_str(u[3])] + wire(u[1]) + wire(u[2])
    if k in ("neg", "not", "subq"):
        return [k] + wire(u[1])
    if k == "between":
        return [k] + wire(u[1]) + wire(u[2]) + wire(u[3])
    if k in ("and", "or", "coalesce"):
        out = [k, str(len(u[1]))]
        for c in u[1]:
            out += wire(c)
        return out
    if k == "case":
        out = ["case", "1" if u[1] is not None else "0", str(len(u[2])), "1" if u[3] is not None else "0"]
        if u[1] is not None:
            out += wire(u[1])
        for c, r in u[2]:
            out += wire(c) + wire(r)
        if u[3] is not None:
            out += wire(u[3])
        return out
    if k == "cast":
        return ["cast", u[1]] + wire(u[2])
    if k in ("in", "notin"):
        out = [k, str(len(u[2]))]
        for v in u[2]:
            out.append(wire_val(v))
        return out + wire(u[1])
    if k in ("tin", "tnotin"):
        out = [k, str(len(u[1])), str(len(u[2]))]
        for row in u[2]:
            for v in row:
                out.append(wire_val(v))
        for c in u[1]:
            out += wire(c)
        return out
    raise ValueError(k)


def wire_val(v):
    if v is None:
        return "N"
    if isinstance(v, bool):
        return "b%d" % int(v)
    if isinstance(v, int):
        return "i%d" % v
    if isinstance(v, str):
        return enc_str(v)
    if isinstance(v, (list, tuple)):
        return "t" + "/".join(wire_val(x) for x in v)
    raise ValueError(v)


# --------------------------------------------------------------------------- SQLite execution
ROWS_FIXED = [
    # id, ia, ib, ic, na, nb, sa, sb, ba, bb
    (1, 1, 2, 3, 1.5, -2.5, "a", "b", 1, 0),
    (2, 0, 0, 0, 0.0, 0.0, "", "", 0, 0),
    (3, -1, -2, 7, -0.5, 4.0, "A", "a%", 1, 1),
    (4, None, None, None, None, None, None, None, None, None),
    (5, 5, None, -3, 2.0, None, "ab", None, 0, None),
    (6, None, 4, 2, None, 0.25, None, "_", None, 1),
    (7, 10, 3, 0, 3.0, 1.0, "12", "3", 0, 1),
    (8, -7, 2, 1, -8.0, 0.5, "x/y", "X", 1, None),
    (9, 3, 3, 3, 3.0, 3.0, "a", "a", 1, 1),
    (10, 2, -5, 4, 0.5, -0.25, "%", "", None, 0),
]


def make_rows(rng, n):
    import random as _random

    rng = _random.Random(20240921)  # the table is a constant of the check (replayable)
    rows = list(ROWS_FIXED)
    ints = [None, 0, 1, -1, 2, 3, -4, 6, 12]
    nums = [None, 0.0, 0.5, -1.5, 2.0, 4.0, -0.25]
    strs = [None, "", "a", "A", "ab", "b", "1", "a%", "_", "10"]
    bools = [None, 0, 1]
    for i in range(n):
        rows.append(
            (
                len(rows) + 1,
                rng.choice(ints), rng.choice(ints), rng.choice(ints),
                rng.choice(nums), rng.choice(nums),
                rng.choice(strs), rng.choice(strs),
                rng.choice(bools), rng.choice(bools),
            )
        )
    return rows


class Db:
    """in-memory SQLite with the generated table; executes through SQLAlchemy (real
    compilation, binding, caching) and reads the DBAPI cursor directly so no result
    processor interferes"""

    def __init__(self, rng=None, nrand=20):
        S = _sa()
        sa = S["sa"]
        from sqlalchemy.pool import StaticPool

        self.engine = sa.create_engine("sqlite://", poolclass=StaticPool)

        @sa.event.listens_for(self.engine, "connect")
        def _null_safe_floor(dbapi_conn, rec):
            # pysqlite's on_connect installs floor = math.floor, which raises on NULL
            # ("user-defined function raised exception"); that defect is outside this
            # property and would turn value comparisons into evaluation-order comparisons
            dbapi_conn.create_function("floor", 1, lambda x: None if x is None else math.floor(x))

        self.rows = make_rows(rng, nrand)
        with self.engine.begin() as c:
            c.exec_driver_sql(
                "CREATE TABLE t (id INTEGER PRIMARY KEY, ia INTEGER, ib INTEGER, ic INTEGER, "
                "na NUMERIC, nb NUMERIC, sa VARCHAR, sb VARCHAR, ba BOOLEAN, bb BOOLEAN)"
            )
            c.exec_driver_sql("INSERT INTO t VALUES (?,?,?,?,?,?,?,?,?,?)", self.rows)
        self.conn = self.engine.connect()
        self.t = sa.table("t", sa.column("id", sa.Integer))

    def close(self):
        self.conn.close()
        self.engine.dispose()

    def run_sa(self, e):
        """rows of ``SELECT <e> FROM t ORDER BY id`` through the real execution path"""
        sa = _SA["sa"]
        stmt = sa.select(e.label("r")).select_from(self.t).order_by(self.t.c.id)
        return self.run_stmt(stmt)

    def run_stmt(self, stmt, params=None):
        try:
            res = self.conn.execute(stmt, params or {})
            out = [canon(r[0]) for r in res.cursor.fetchall()]
            res.close()
            return out
        except Exception as ex:  # noqa
            self.conn.rollback()
            return "error:%s:%s" % (type(ex).__name__, str(getattr(ex, "orig", ex))[:80])

    def run_sql(self, expr_sql):
        try:
            cur = self.conn.exec_driver_sql("SELECT %s AS r FROM t ORDER BY id" % expr_sql)
            out = [canon(r[0]) for r in cur.cursor.fetchall()]
            cur.close()
            return out
        except Exception as ex:  # noqa
            self.conn.rollback()
            return "error:%s:%s" % (type(ex).__name__, str(getattr(ex, "orig", ex))[:80])


def canon(v):
    if isinstance(v, float):
        if v != v:
            return ["f", "nan"]
        if v in (math.inf, -math.inf):
            return ["f", str(v)]
        return ["f", v]
    if isinstance(v, bytes):
        return ["b", v.hex()]
    return v


def same_value(a, b):
    if isinstance(a, list) and isinstance(b, list) and a[:1] == ["f"] and b[:1] == ["f"]:
        x, y = a[1], b[1]
        if isinstance(x, str) or isinstance(y, str):
            return x == y
        return x == y or abs(x - y) <= 1e-9 * max(abs(x), abs(y), 1.0)
    return a == b and type(a) is type(b)


def same_rows(a, b):
    if isinstance(a, str) or isinstance(b, str):
        # both erroring is agreement only if both error (kind of error is backend text)
        return isinstance(a, str) and isinstance(b, str)
    return len(a) == len(b) and all(same_value(x, y) for x, y in zip(a, b))


def first_diff(a, b):
    if isinstance(a, str) or isinstance(b, str):
        return {"rendered": a if isinstance(a, str) else "rows", "reference": b if isinstance(b, str) else "rows"}
    for i, (x, y) in enumerate(zip(a, b)):
        if not same_value(x, y):
            return {"row": i + 1, "rendered": x, "reference": y}
    return None


# --------------------------------------------------------------------------- generators
INT_LITS = [0, 1, 2, 3, -1, -2, 5, 10]
NUM_LITS = ["1.5", "0.5", "-2.5", "2.0", "0.0", "4.25"]
STR_LITS = ["", "a", "b", "A", "ab", "%", "a%", "_", "x/y", "1", "it's"]


def sa_str_typed(u):
    """does SQLAlchemy type this tree as String (so that ``+`` means concatenation)?"""
    k = u[0]
    if k == "col":
        return COLS[u[1]] == "str"
    if k in ("ls", "ps"):
        return True
    if k == "add":
        return sa_str_typed(u[1]) and sa_str_typed(u[2])
    if k == "concat":
        return sa_str_typed(u[1])
    if k == "cast":
        return u[1] == "str"
    if k == "case":
        return all(sa_str_typed(r) for _, r in u[2]) and (u[3] is None or sa_str_typed(u[3]))
    if k == "coalesce":
        return all(sa_str_typed(c) for c in u[1])
    if k == "subq":
        return sa_str_typed(u[1])
    return False


class TreeGen:
    """typed random expression trees; ``exotic`` is the probability (per eligible node)
    of the loosely typed shapes (comparison results as BETWEEN bounds, NOT of a number,
    ordering comparisons between booleans); ``with_in`` adds IN / NOT IN nodes"""

    def __init__(self, rng, exotic=0.04, with_in=False, consts=0.08):
        self.rng = rng
        self.exotic = exotic
        self.with_in = with_in
        self.consts = consts

    def pick(self, weighted):
        tot = sum(w for w, _ in weighted)
        x = self.rng.random() * tot
        for w, v in weighted:
            x -= w
            if x <= 0:
                return v
        return weighted[-1][1]

    def leaf(self, ty):
        r = self.rng
        if ty == "int":
            return ["col", r.choice(["ia", "ib", "ic"])] if r.random() < 0.65 else ["li", r.choice(INT_LITS)]
        if ty == "num":
            return ["col", r.choice(["na", "nb"])] if r.random() < 0.65 else ["ln", r.choice(NUM_LITS)]
        if ty == "str":
            return ["col", r.choice(["sa", "sb"])] if r.random() < 0.6 else ["ls", r.choice(STR_LITS)]
        if ty == "bool":
            x = r.random()
            if x < self.consts:
                return [r.choice(["true", "false"])]
            return ["col", r.choice(["ba", "bb"])]
        raise ValueError(ty)

    def numeric(self, d):
        return self.expr("int" if self.rng.random() < 0.6 else "num", d)

    def expr(self, ty, d):
        r = self.rng
        if d <= 0 or r.random() < 0.12:
            return self.leaf(ty)
        d -= 1
        if ty == "int":
            k = self.pick([(10, "add"), (10, "sub"), (10, "mul"), (6, "floordiv"), (6, "mod"), (7, "neg"),
                           (3, "case"), (3, "cast"), (2, "coalesce"), (2, "subq")])
            if k in ("add", "sub", "mul", "floordiv", "mod"):
                a, b = self.expr("int", d), self.expr("int", d)
                x = r.random()
                if x < 0.12:
                    b = ["pi", r.choice(INT_LITS)]     # col <op> 5
                elif x < 0.24 and a[0] not in ("li",):
                    a, b = ["pi", r.choice(INT_LITS)], a  # 5 <op> col  (reflected operator)
                if a[0] == "pi" and b[0] in ("li", "pi"):
                    b = ["col", "ia"]
                return [k, a, b]
            if k == "neg":
                return ["neg", self.expr("int", d)]
            if k == "cast":
                return ["cast", "int", self.expr(r.choice(["num", "str", "bool", "int"]), d)]
            return self.generic(k, ty, d)
        if ty == "num":
            k = self.pick([(10, "add"), (8, "sub"), (10, "mul"), (10, "truediv"), (4, "floordiv"), (6, "neg"),
                           (3, "case"), (3, "cast"), (2, "coalesce"), (1, "subq")])
            if k in ("add", "sub", "mul", "floordiv"):
                a, b = self.expr("num", d), self.numeric(d)
                if r.random() < 0.5:
                    a, b = b, a
                return [k, a, b]
            if k == "truediv":
                return [k, self.numeric(d), self.numeric(d)]
            if k == "neg":
                return ["neg", self.expr("num", d)]
            if k == "cast":
                return ["cast", "num", self.expr(r.choice(["int", "str"]), d)]
            return self.generic(k, ty, d)
        if ty == "str":
            k = self.pick([(14, "concat"), (8, "add"), (3, "case"), (4, "cast"), (2, "coalesce"), (1, "subq")])
            if k == "concat":
                x = r.random()
                a = self.expr("str", d) if x < 0.6 else self.numeric(d)
                y = r.random()
                b = self.expr("str", d) if y < 0.6 else self.numeric(d)
                return ["concat", a, b]
            if k == "add":
                a, b = self.expr("str", d), self.expr("str", d)
                if sa_str_typed(a) and sa_str_typed(b):
                    x = r.random()
                    if x < 0.15:
                        b = ["ps", r.choice(STR_LITS)]
                    elif x < 0.3 and b[0] != "ls":
                        a = ["ps", r.choice(STR_LITS)]   # 'x' + col  (__radd__)
                    return ["add", a, b]
                return ["concat", a, b]
            if k == "cast":
                return ["cast", "str", self.expr(r.choice(["int", "num", "str"]), d)]
            return self.generic(k, ty, d)
        if ty == "bool":
            w = [(16, "cmp"), (6, "isnull"), (4, "isconst"), (5, "isgen"), (6, "like"), (6, "between"),
                 (12, "and"), (12, "or"), (12, "not"), (3, "case"), (2, "cast"), (5, "leaf")]
            if self.with_in:
                w.append((10, "in"))
            k = self.pick(w)
            if k == "leaf":
                return self.leaf("bool")
            if k == "cmp":
                kind = self.pick([(6, "numeric"), (3, "str"), (3, "bool")])
                if kind == "numeric":
                    a, b = self.numeric(d), self.numeric(d)
                    x = r.random()
                    if x < 0.1:
                        b = ["pi", r.choice(INT_LITS)]
                    elif x < 0.2 and b[0] not in ("li", "ln"):
                        a = ["pi", r.choice(INT_LITS)]    # 5 < col  ->  col > 5
                    return [r.choice(CMP), a, b]
                if kind == "str":
                    return [r.choice(CMP), self.expr("str", d), self.expr("str", d)]
                op = r.choice(CMP) if r.random() < self.exotic * 4 else r.choice(["eq", "ne"])
                return [op, self.expr("bool", d), self.expr("bool", d)]
            if k == "isnull":
                t = r.choice(["int", "num", "str", "bool"])
                return [r.choice(["is", "isnot", "eq", "ne"]), self.expr(t, d), ["null"]]
            if k == "isconst":
                return [r.choice(["is", "isnot", "eq", "ne"]), self.expr("bool", d), [r.choice(["true", "false"])]]
            if k == "isgen":
                t = r.choice(["int", "num", "str", "bool"])
                return [r.choice(ISOPS), self.expr(t, d), self.expr(t, d)]
            if k == "like":
                esc = r.choice([None, None, "/", "!"])
                if r.random() < 0.45:
                    return [r.choice(STROPS), self.expr("str", d), self.expr("str", d), esc]
                return [r.choice(LIKES), self.expr("str", d), self.expr("str", d), esc]
            if k == "between":
                if r.random() < self.exotic * 3:
                    return ["between", self.expr("bool", d), self.expr("bool", d), self.expr("bool", d)]
                if r.random() < 0.75:
                    return ["between", self.numeric(d), self.numeric(d), self.numeric(d)]
                return ["between", self.expr("str", d), self.expr("str", d), self.expr("str", d)]
            if k in ("and", "or"):
                n = self.pick([(1, 1), (10, 2), (5, 3), (2, 4)])
                return [k, [self.expr("bool", d) for _ in range(n)]]
            if k == "not":
                if r.random() < self.exotic:
                    return ["not", self.numeric(d)]
                return ["not", self.expr("bool", d)]
            if k == "cast":
                return ["cast", "bool", self.expr("bool", d)]
            if k == "in":
                t = r.choice(["int", "int", "str"])
                vals = self.in_values(t)
                x = self.expr(t, d)
                if t == "str" and not sa_str_typed(x):
                    x = self.leaf("str")  # the list's bind type follows the left side's SA type
                if t == "int" and utype(x) != "int":
                    x = self.leaf("int")
                return [r.choice(["in", "notin"]), x, vals]
            return self.generic(k, ty, d)
        raise ValueError(ty)

    def in_values(self, t):
        r = self.rng
        n = self.pick([(3, 0), (3, 1), (4, 2), (3, 3), (2, 4)])
        pool = [None, 0, 1, 2, 3, -1] if t == "int" else [None, "", "a", "b", "A", "ab"]
        return [r.choice(pool) for _ in range(n)]

    def generic(self, k, ty, d):
        r = self.rng
        if k == "case":
            n = self.pick([(6, 1), (3, 2)])
            if r.random() < 0.25:
                vt = r.choice(["int", "str"])
                value = self.expr(vt, d)
                whens = [[self.expr(vt, d), self.expr(ty, d)] for _ in range(n)]
            else:
                value = None
                whens = [[self.expr("bool", d), self.expr(ty, d)] for _ in range(n)]
            else_ = self.expr(ty, d) if r.random() < 0.7 else None
            return ["case", value, whens, else_]
        if k == "coalesce":
            return ["coalesce", [self.expr(ty, d) for _ in range(r.choice([2, 2, 3]))]]
        if k == "subq":
            # a scalar subquery is an atom of the property; its body is a plain column so
            # that no anonymous label (C21's business) appears in the text
            names = [n for n, t in COLS.items() if t == ty]
            return ["subq", ["col", r.choice(names)]]
        raise ValueError(k)


# --------------------------------------------------------------------------- translator
OPS = ["add", "sub", "mul", "truediv", "floordiv", "mod", "neg", "concat_op", "eq", "ne", "lt", "le", "gt", "ge",
       "is_", "is_not", "is_distinct_from", "is_not_distinct_from", "like_op", "not_like_op", "ilike_op",
       "not_ilike_op", "between_op", "not_between_op", "in_op", "not_in_op", "and_", "or_", "inv", "is_true",
       "is_false", "comma_op", "_asbool", "contains_op", "not_contains_op", "startswith_op", "not_startswith_op",
       "endswith_op", "not_endswith_op", "icontains_op", "not_icontains_op", "istartswith_op", "not_istartswith_op",
       "iendswith_op", "not_iendswith_op"]


def lean_op(name):
    return ".asbool_" if name == "_asbool" else "." + name


def lean_str(s):
    out = '"'
    for ch in s:
        if ch == '"':
            out += '\\"'
        elif ch == "\\":
            out += "\\\\"
        elif ch == "\n":
            out += "\\n"
        elif 32 <= ord(ch) < 127:
            out += ch
        else:
            out += "\\u{%x}" % ord(ch)
    return out + '"'


def read_tables():
    """the finite tables of the working tree the model depends on, as plain Python data"""
    _sa()
    from sqlalchemy.sql import operators, default_comparator, compiler

    fn = {n: getattr(operators, n) for n in OPS}
    rev = {v: k for k, v in fn.items()}
    T = {"problems": []}
    T["precedence"] = {n: operators._PRECEDENCE.get(f) for n, f in fn.items()}
    T["smallest"] = int(operators._OpLimit._smallest)
    T["largest"] = int(operators._OpLimit._largest)
    T["associative"] = {n: f in operators._associative for n, f in fn.items()}
    T["natural_self_precedent"] = {n: f in operators._natural_self_precedent for n, f in fn.items()}
    T["comparison"] = {n: f in operators._comparison for n, f in fn.items()}
    T["booleans"] = {n: f in operators._booleans for n, f in fn.items()}
    T["commutative"] = {n: f in operators._commutative for n, f in fn.items()}
    neg = {}
    for n, f in fn.items():
        ent = default_comparator.operator_lookup.get(f.__name__)
        v = None
        if ent is not None and "negate_op" in ent[1]:
            tgt = ent[1]["negate_op"]
            if tgt in rev:
                v = rev[tgt]
            else:
                T["problems"].append("negate_op of %s is %r, outside the modelled operator set" % (n, tgt))
        neg[n] = v
    T["negate_op"] = neg
    T["impl"] = {}
    for n, f in fn.items():
        ent = default_comparator.operator_lookup.get(f.__name__)
        T["impl"][n] = ent[0].__name__ if ent is not None else None
    T["opstring"] = {n: compiler.OPERATORS.get(f) for n, f in fn.items()}
    # CAST type names and dialect flags
    S = _SA
    cast = {}
    flags = {}
    for dn in DIALECTS:
        d = dialect(dn)
        for tn, tc in S["types"].items():
            with warnings.catch_warnings():
                warnings.simplefilter("ignore")
                txt = str(S["sa"].cast(S["sa"].column("x"), tc).compile(dialect=d))
            if txt.startswith("CAST(x AS ") and txt.endswith(")"):
                cast[(dn, tn)] = txt[len("CAST(x AS "):-1]
            else:
                cast[(dn, tn)] = None
        flags[dn] = {
            "supports_native_boolean": bool(d.supports_native_boolean),
            "div_is_floordiv": bool(d.div_is_floordiv),
            "double_percents": bool(d.identifier_preparer._double_percents),
        }
    T["cast"] = cast
    T["flags"] = flags
    return T


def gen_tables_lean(T):
    L = []
    L.append("import SaVerif.Model.ExprOp")
    L.append("/-! Tables regenerated from `sqlalchemy.sql.operators`, `default_comparator.operator_lookup`,")
    L.append("`compiler.OPERATORS`, the dialects' type compilers and capability flags. -/")
    L.append("namespace SaVerif.Expr.Gen")
    L.append("open SaVerif.Expr")
    L.append("")
    L.append("def opSmallest : Int := %d" % T["smallest"])
    L.append("def opLargest : Int := %d" % T["largest"])
    L.append("")
    L.append("/-- `_PRECEDENCE.get(op)` -/")
    L.append("def precedence : Op → Option Int")
    for n in OPS:
        v = T["precedence"][n]
        L.append("  | %s => %s" % (lean_op(n), "none" if v is None else "some (%d)" % v))
    for key, doc in (("associative", "`op in _associative`"), ("natural_self_precedent", "`op in _natural_self_precedent`"),
                     ("comparison", "`op in _comparison`"), ("booleans", "`op in _booleans`"), ("commutative", "`op in _commutative`")):
        nm = {"natural_self_precedent": "naturalSelfPrecedent"}.get(key, key)
        L.append("")
        L.append("/-- %s -/" % doc)
        L.append("def %s : Op → Bool" % nm)
        for n in OPS:
            L.append("  | %s => %s" % (lean_op(n), "true" if T[key][n] else "false"))
    L.append("")
    L.append("/-- `operator_lookup[op.__name__][1].get(\"negate_op\")` -/")
    L.append("def negateOp : Op → Option Op")
    for n in OPS:
        v = T["negate_op"][n]
        L.append("  | %s => %s" % (lean_op(n), "none" if v is None else "some %s" % lean_op(v)))
    L.append("")
    L.append("/-- `compiler.OPERATORS.get(op)` -/")
    L.append("def opString : Op → Option String")
    for n in OPS:
        v = T["opstring"][n]
        L.append("  | %s => %s" % (lean_op(n), "none" if v is None else "some %s" % lean_str(v)))
    L.append("")
    L.append("/-- text of `CAST(x AS <type>)`'s type on each dialect (`none`: the dialect skips the CAST) -/")
    L.append("def castName : Dialect → Ty → Option String")
    for dn in DIALECTS:
        for tn in ("int", "num", "str", "bool"):
            v = T["cast"][(dn, tn)]
            L.append("  | .%s, .%s => %s" % (dn, tn, "none" if v is None else "some %s" % lean_str(v)))
    L.append("  | _, .null => none")
    for flag, nm in (("supports_native_boolean", "supportsNativeBoolean"), ("div_is_floordiv", "divIsFloordiv"),
                     ("double_percents", "doublePercents")):
        L.append("")
        L.append("def %s : Dialect → Bool" % nm)
        for dn in DIALECTS:
            L.append("  | .%s => %s" % (dn, "true" if T["flags"][dn][flag] else "false"))
    L.append("")
    L.append("end SaVerif.Expr.Gen")
    return "\n".join(L) + "\n"


# --------------------------------------------------------------------------- lexer of emitted SQL
# Used only when the compiler's text differs from the model's text: both texts are then read by
# the model's backend grammar (lean driver `expr readtok`) and compared as *readings*, so that a
# redundant pair of parentheses is not a disagreement while a missing one is.
import re as _re

_TOK = _re.compile(
    r"""\s*(?:
      (?P<str>'(?:[^']|'')*')
    | (?P<num>\d+(?:\.\d+)?)
    | (?P<ph>\?|%s|%\([^)]*\)s|__\[POSTCOMPILE_[^\]]*\]|:[A-Za-z_]\w*)
    | (?P<id>[A-Za-z_][A-Za-z_0-9.]*|"(?:[^"]|"")*"|`(?:[^`]|``)*`)
    | (?P<op><=>|\|\||!=|<>|<=|>=|%%|[=<>+\-*/%,()])
    )""",
    _re.X,
)
_KW = {"AND", "OR", "NOT", "IS", "IN", "LIKE", "ILIKE", "BETWEEN", "ESCAPE", "CASE", "WHEN", "THEN", "ELSE", "END",
       "CAST", "AS", "NULL", "DISTINCT", "FROM", "VALUES", "SELECT", "TRUE", "FALSE", "COLLATE"}
_INFIX = {"+": "plus", "-": "minus", "*": "star", "/": "slash", "%": "percent", "%%": "percent", "||": "concat",
          "=": "eq", "!=": "ne", "<>": "ne", "<": "lt", "<=": "le", ">": "gt", ">=": "ge", "<=>": "nseq", ",": "comma"}


def lex_sql(text):
    """-> list of driver tokens (`a`, `p:<sym>`, `i:<sym>`, `o:<bracket>`, `c:<bracket>`) or None"""
    raw = []
    pos = 0
    text = text.strip()
    while pos < len(text):
        m = _TOK.match(text, pos)
        if not m or m.end() == pos:
            return None
        pos = m.end()
        if m.group("str") or m.group("num") or m.group("ph"):
            raw.append(("atom", m.group(0).strip()))
        elif m.group("id"):
            w = m.group("id")
            raw.append(("kw", w.upper()) if w.upper() in _KW else ("id", w))
        else:
            raw.append(("op", m.group("op")))
    out = []
    stack = []

    def operand_before():
        return bool(out) and (out[-1] == "a" or out[-1].startswith("c:"))

    i = 0
    n = len(raw)

    def kw(j, *words):
        return all(j + k < n and raw[j + k] == ("kw", w) for k, w in enumerate(words))

    while i < n:
        kind, v = raw[i]
        if kind == "atom":
            out.append("a")
            i += 1
        elif kind == "id":
            if i + 1 < n and raw[i + 1] == ("op", "("):
                out.append("o:fn")
                stack.append("fn")
                i += 2
            else:
                out.append("a")
                i += 1
        elif kind == "kw":
            if v in ("NULL", "TRUE", "FALSE"):
                out.append("a")
                i += 1
            elif v == "CAST" and i + 1 < n and raw[i + 1] == ("op", "("):
                out.append("o:cast")
                stack.append("cast")
                i += 2
            elif v == "AS":
                out.append("i:as_")
                # the type name: everything up to the parenthesis that closes the CAST
                depth, j = 0, i + 1
                while j < n and not (raw[j] == ("op", ")") and depth == 0):
                    if raw[j] == ("op", "("):
                        depth += 1
                    elif raw[j] == ("op", ")"):
                        depth -= 1
                    j += 1
                out.append("a")
                i = j
            elif v == "CASE":
                if kw(i + 1, "WHEN"):
                    out.append("o:caseSearched")
                    stack.append("caseSearched")
                    i += 2
                else:
                    out.append("o:caseSimple")
                    stack.append("caseSimple")
                    i += 1
            elif v == "WHEN":
                out.append("i:when_")
                i += 1
            elif v == "THEN":
                out.append("i:then_")
                i += 1
            elif v == "ELSE":
                out.append("i:else_")
                i += 1
            elif v == "END":
                if not stack or not stack[-1].startswith("case"):
                    return None
                out.append("c:" + stack.pop())
                i += 1
            elif v == "AND":
                out.append("i:and_")
                i += 1
            elif v == "OR":
                out.append("i:or_")
                i += 1
            elif v == "ESCAPE":
                out.append("i:escape")
                i += 1
            elif v == "IS":
                if kw(i + 1, "NOT", "DISTINCT", "FROM"):
                    out.append("i:isNotDistinct")
                    i += 4
                elif kw(i + 1, "DISTINCT", "FROM"):
                    out.append("i:isDistinct")
                    i += 3
                elif kw(i + 1, "NOT"):
                    out.append("i:isNot")
                    i += 2
                else:
                    out.append("i:is_")
                    i += 1
            elif v == "NOT":
                if operand_before() and kw(i + 1, "IN"):
                    out.append("i:notIn")
                    i += 2
                elif operand_before() and kw(i + 1, "LIKE"):
                    out.append("i:notLike")
                    i += 2
                elif operand_before() and kw(i + 1, "ILIKE"):
                    out.append("i:notIlike")
                    i += 2
                elif operand_before() and kw(i + 1, "BETWEEN"):
                    out.append("i:notBetween")
                    i += 2
                else:
                    out.append("p:not_")
                    i += 1
            elif v == "IN":
                out.append("i:in_")
                i += 1
            elif v == "LIKE":
                out.append("i:like")
                i += 1
            elif v == "ILIKE":
                out.append("i:ilike")
                i += 1
            elif v == "BETWEEN":
                out.append("i:between")
                i += 1
            elif v == "VALUES":
                out.append("p:values")
                i += 1
            elif v == "COLLATE":
                out.append("i:collate")
                i += 1
            else:
                return None
        else:  # op
            if v == "(":
                if i + 1 < n and raw[i + 1] == ("kw", "SELECT") or (kw(i + 1, "VALUES", "SELECT")):
                    depth, j = 0, i + 1
                    while j < n and not (raw[j] == ("op", ")") and depth == 0):
                        if raw[j] == ("op", "("):
                            depth += 1
                        elif raw[j] == ("op", ")"):
                            depth -= 1
                        j += 1
                    if j >= n:
                        return None
                    # a sub-select in parentheses is one parenthesised atom
                    out += ["o:paren", "a", "c:paren"]
                    i = j + 1
                else:
                    out.append("o:paren")
                    stack.append("paren")
                    i += 1
            elif v == ")":
                if not stack or stack[-1].startswith("case"):
                    return None
                out.append("c:" + stack.pop())
                i += 1
            elif v == "-" and not operand_before():
                out.append("p:neg")
                i += 1
            else:
                out.append("i:" + _INFIX[v])
                i += 1
    if stack:
        return None
    return out


def _strip_parens(s):
    return _re.sub(r"[()\s]", "", s)


def reconcile_render(ctx, cases, impl_out, model_out, pid):
    """Second look at the rendering disagreements (only reached when the compiler's text differs
    from the model's): a pair whose texts differ *only in parentheses* and which the model's
    backend grammar reads as the same tree is not a disagreement about anything the property
    speaks of; a pair the grammar reads differently from the tree the expression means is a
    model-level failing input (reported, with the dialect, even where no backend can execute it).

    -> (impl_out with benign pairs replaced by the model's text, list of model-level failures)"""
    from harness import vlib

    idx = [i for i, (a, b) in enumerate(zip(impl_out, model_out)) if a != b and a.startswith("ok ") and b.startswith("ok ")]
    if not idx or not ctx.driver_ok():
        return impl_out, []
    reqs, meta = [], []
    for i in idx[:4000]:
        pa, pb = impl_out[i].split(" "), model_out[i].split(" ")
        if pa[1] != pb[1]:
            continue
        real, model = vlib.dec_str(pa[2]), vlib.dec_str(pb[2])
        toks = lex_sql(real)
        if toks is None:
            continue
        d = cases[i]["dialect"]
        reqs.append("expr readtok %s %s" % (d, " ".join(toks)))
        reqs.append("expr readu %s %s" % (d, " ".join(wire(cases[i]["u"]))))
        meta.append((i, real, model))
    if not reqs:
        return impl_out, []
    out = ctx.driver(reqs)
    impl2 = list(impl_out)
    failures = []
    for k, (i, real, model) in enumerate(meta):
        rt, ru = out[2 * k].split(" "), out[2 * k + 1].split(" ")
        if rt[0] != "ok" or ru[0] != "ok" or len(ru) < 3:
            continue
        reading_real, reading_model, intended = rt[1], ru[1], ru[2]
        if reading_real == reading_model and _strip_parens(real) == _strip_parens(model):
            impl2[i] = model_out[i]
            ctx.count("render=equal-up-to-redundant-parentheses")
            continue
        if reading_real != intended and reading_real != "noparse" and _strip_parens(real) == _strip_parens(model):
            # same tokens as the model's text, parenthesised differently, and read by the grammar
            # as another tree than the one the expression means
            failures.append(
                {
                    "case": {"u": cases[i]["u"], "dialect": cases[i]["dialect"], "mode": "model-level"},
                    "detail": {
                        "compiler_text": real,
                        "grammar_reading_of_compiler_text": vlib.dec_str(reading_real) if reading_real.startswith("s:") else reading_real,
                        "tree_the_expression_means": vlib.dec_str(intended),
                        "note": "model-level: the %s grammar table of lean/SaVerif/Model/ExprGrammar.lean groups the emitted text differently from the expression tree" % cases[i]["dialect"],
                    },
                }
            )
    if impl2 != list(impl_out):
        ctx.assumptions.append(
            "%s: the compiler's text differs from the model's text on some cases only by redundant parentheses "
            "(same reading by the backend grammar); these are not counted as correspondence disagreements" % pid
        )
    return impl2, failures


# --------------------------------------------------------------------------- the theorem's fragment
def frag_num(rng, d, div="all"):
    """numeric tree of the Lean fragment NumU over the integer columns: + - * % / //, unary minus,
    scalar subquery, cast(Integer / Numeric), coalesce, searched and simple case.
    div="floor": without true division (whose value is a float: outside the Lean value model)"""
    if d <= 0 or rng.random() < 0.2:
        x = rng.random()
        if x < 0.6:
            return ["col", rng.choice(["ia", "ib", "ic"])]
        if x < 0.9:
            return ["li", rng.choice(INT_LITS)]
        return ["subq", ["col", rng.choice(["ia", "ib", "ic"])]]
    k = rng.choice(["add", "sub", "mul", "mod", "neg", "add", "mul", "case", "case", "cast", "coalesce",
                    "floordiv", "floordiv", "truediv" if div == "all" else "sub"])
    if k == "neg":
        return ["neg", frag_num(rng, d - 1, div)]
    if k == "cast":
        return ["cast", rng.choice(["int", "num"]), frag_num(rng, d - 1, div)]
    if k == "coalesce":
        return ["coalesce", [frag_num(rng, d - 1, div) for _ in range(rng.choice([2, 2, 3]))]]
    if k == "case":
        n = rng.choice([1, 2, 2, 3])
        if rng.random() < 0.6:
            value = None
            whens = [[frag_bool(rng, min(d - 1, 2), div, "str" if div == "floor" else "all"), frag_num(rng, d - 1, div)] for _ in range(n)]
        else:
            value = frag_num(rng, d - 1, div)
            whens = [[frag_num(rng, min(d - 1, 1), div), frag_num(rng, d - 1, div)] for _ in range(n)]
        return ["case", value, whens, frag_num(rng, d - 1, div) if rng.random() < 0.6 else None]
    return [k, frag_num(rng, d - 1, div), frag_num(rng, d - 1, div)]


def frag_str(rng, d, div="all", opnds="all"):
    """string-valued tree of the Lean fragment StrU: string columns / literals and concatenations;
    opnds="all": an operand of a concatenation may be a numeric tree (finding F1's cells on SQLite)"""
    if d <= 0 or rng.random() < 0.3:
        return ["col", rng.choice(["sa", "sb"])] if rng.random() < 0.6 else ["ls", rng.choice(STR_LITS)]

    def opnd():
        if opnds == "all" and rng.random() < 0.3:
            return frag_num(rng, d - 1, div)
        return frag_str(rng, d - 1, div, opnds)
    return ["concat", opnd(), opnd()]


def frag_bool(rng, d, div="all", opnds="all"):
    """boolean tree of the Lean fragment BoolU (without is_/is_not between general operands)"""
    if d <= 0 or rng.random() < 0.25:
        x = rng.random()
        if x < 0.2:
            return [rng.choice(["eq", "ne", "is", "isnot"]), frag_num(rng, 1, div), ["null"]]
        if x < 0.4:
            if rng.random() < 0.2:
                return [rng.choice(["eq", "ne", "is", "isnot"]), frag_str(rng, 1, div, opnds), ["null"]]
            return [rng.choice(CMP), frag_str(rng, rng.randint(0, 2), div, opnds), frag_str(rng, rng.randint(0, 2), div, opnds)]
        if x < 0.6:
            # the LIKE family over string-valued operands, with or without escape=
            return [rng.choice(LIKES), frag_str(rng, rng.randint(0, 2), div, opnds), frag_str(rng, rng.randint(0, 2), div, opnds),
                    rng.choice([None, None, "/", "!", "a"])]
        if x < 0.68:
            # BETWEEN over numeric trees (arithmetic bounds: their operators lie above BETWEEN)
            return ["between", frag_num(rng, rng.randint(0, 2), div), frag_num(rng, rng.randint(0, 2), div),
                    frag_num(rng, rng.randint(0, 2), div)]
        if x < 0.8:
            # IN / NOT IN with a non-empty list of literals (NULL allowed: three-valued)
            n = rng.choice([1, 2, 3, 4])
            if rng.random() < 0.7:
                return [rng.choice(["in", "notin"]), frag_num(rng, rng.randint(0, 2), div),
                        [rng.choice(INT_LITS + [None]) for _ in range(n)]]
            # (string-typed left side: the list values take the left operand's type)
            return [rng.choice(["in", "notin"]), frag_str(rng, rng.randint(0, 2), div, "str"),
                    [rng.choice(STR_LITS + [None]) for _ in range(n)]]
        return [rng.choice(CMP), frag_num(rng, rng.randint(0, 2), div), frag_num(rng, rng.randint(0, 2), div)]
    k = rng.choice(["and", "or", "not", "and", "or"])
    if k == "not":
        return ["not", frag_bool(rng, d - 1, div, opnds)]
    return [k, [frag_bool(rng, d - 1, div, opnds) for _ in range(rng.choice([1, 2, 2, 3]))]]
