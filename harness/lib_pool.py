"""Shared pieces for the pool properties (C25, C26, C29): fake DBAPI with an
open/closed ledger and per-thread fault plans, a QueuePool subclass whose
``_overflow`` attribute is a logging property (defined HERE, /repo is untouched),
and the extraction of LTS labels from one scheduled run of the real code.

Label alphabet (one token ``<tid>:<label>[:<arg>...]``; see Model/Pool.lean):

  cg        QueuePool._do_get entered                       (call event)
  rv:v      unlocked or locked read of pool._overflow, value v
  rmw:v:w   `self._overflow += 1` / `-= 1` : read v, wrote w  (one statement)
  wv:w      any other write to _overflow (never legal after __init__)
  qg:b      Queue.get(block=b) entered
  pop:r     record r left the queue            (state delta, attributed to the runner)
  qe        Queue.get raised Empty             (raise site, mutex still held)
  to        _do_get raised TimeoutError
  ci / cd   _inc_overflow / _dec_overflow entered
  la / lr   _overflow_lock acquired / about to be released
  cr:r      _create_connection returned a new record (ids in creation order)
  cf        _create_connection raised
  cp:r      _do_return_conn(r) entered
  put:r     record r appended to the queue     (state delta)
  qf        Queue.put raised Full
  cl        record.close() called from _do_return_conn
  ob:v:q    observation after the step: raw overflow and queue contents
"""
from __future__ import annotations

import gc
import sys

from harness import lib_sched


class FakeError(Exception):
    pass


class FakeConn:
    def __init__(self, dbapi, cid):
        self.dbapi = dbapi
        self.cid = cid
        self.closed = False
        self.rollbacks = 0

    def close(self):
        self.dbapi.on_call("close", self)
        self.closed = True

    def rollback(self):
        self.dbapi.on_call("rollback", self)
        self.rollbacks += 1

    def commit(self):
        self.dbapi.on_call("commit", self)

    def cursor(self):
        raise FakeError("no cursors")

    def __repr__(self):
        return "<conn %d>" % self.cid


class FakeDBAPI:
    """ledger of every connection ever opened; `fail(kind)` consults a fault plan"""

    def __init__(self):
        self.conns = []
        self.fail = lambda kind, conn: False  # installed by the harness

    def on_call(self, kind, conn):
        if self.fail(kind, conn):
            raise FakeError("injected %s failure" % kind)

    def connect(self):
        if self.fail("connect", None):
            raise FakeError("injected connect failure")
        c = FakeConn(self, len(self.conns))
        self.conns.append(c)
        return c

    def open_count(self):
        return sum(1 for c in self.conns if not c.closed)


def _mark(e, attr):
    try:
        setattr(e, attr, True)
    except Exception:
        pass


def traced_record_class(rec_log):
    """subclass of _ConnectionRecord (same layout) whose `fairy_ref` slot is wrapped by a
    property reporting every write: rec_log(record, value)"""
    import sqlalchemy.pool.base as pbase

    slot = pbase._ConnectionRecord.__dict__["fairy_ref"]

    class TracedRecord(pbase._ConnectionRecord):
        __slots__ = ()

        def _get_fr(self):
            return slot.__get__(self, pbase._ConnectionRecord)

        def _set_fr(self, v):
            slot.__set__(self, v)
            rec_log(self, v)

        fairy_ref = property(_get_fr, _set_fr)

    return TracedRecord


def traced_pool_class(base, log, active, rec_log=None):
    """subclass of `base` (QueuePool / AsyncAdaptedQueuePool) whose _overflow is a
    property that reports reads / writes through `log(kind, value)` while
    `active()` is true; with rec_log, the records it creates report writes of fairy_ref"""
    rec_cls = traced_record_class(rec_log) if rec_log is not None else None

    class Traced(base):
        if rec_cls is not None:

            def _create_connection(self):
                rec = base._create_connection(self)
                rec.__class__ = rec_cls
                return rec

        def _get_ov(self):
            v = self.__dict__["_ov"]
            # overflow() / checkedout() / status() are reporting accessors (used e.g. to
            # format the TimeoutError message), not part of the algorithm
            if active() and sys._getframe(1).f_code.co_name not in ("overflow", "checkedout"):
                log("rv", v)
            return v

        def _set_ov(self, v):
            if active():
                log("wv", v)
            self.__dict__["_ov"] = v

        _overflow = property(_get_ov, _set_ov)

    Traced.__name__ = "Traced" + base.__name__
    return Traced


class PoolRun:
    """one scheduled execution of thread programs against a real QueuePool"""

    def __init__(self, cfg, programs, chooser, max_steps=6000, pool_kw=None, early=True, trace_base=False, trace_records=False):
        """cfg: dict(size, max_overflow, lifo, timeout); programs: list (per thread) of ops:
        ("co",) ("ci",k) ("inv",k) ("soft",k) ("drop",k) ("failnext",n)"""
        self.cfg = cfg
        self.programs = programs
        self.chooser = chooser
        self.labels = []
        self.pending_read = None
        self.oracle_failures = []
        self.outcomes = [[] for _ in programs]
        self.rec_ids = {}
        self.recs = []
        self.max_steps = max_steps
        self.pool_kw = pool_kw or {}
        self.early = early
        self.last_queue = []
        self.status = None
        self.held = [[] for _ in programs]  # live fairies per thread
        self.failplan = [0 for _ in programs]
        self.op_start_clock = {}
        self.opidx = [-1 for _ in programs]  # index of the op each thread is executing
        # trace_base: pool/base.py (checkout / checkin / _finalize_fairy ...) yields at every
        # line too; trace_records: labels fs:<rid> / fc:<rid> at every write of fairy_ref
        self.trace_base = trace_base
        self.trace_records = trace_records

    # ------------------------------------------------------------------ logging
    def rid(self, rec):
        k = id(rec)
        if k not in self.rec_ids:
            # a record never announced by `cr` (should not happen): give it an id anyway
            self.rec_ids[k] = 1000 + len(self.recs)
            self.recs.append(rec)
        return self.rec_ids[k]

    def flush_read(self):
        if self.pending_read is not None:
            t, v, _ = self.pending_read
            self.pending_read = None
            self.labels.append("%d:rv:%d" % (t, v))

    def log(self, label, w=None):
        w = w if w is not None else self.sched.cur()
        self.flush_read()
        self.labels.append("%d:%s" % (w.idx, label))

    def log_ov(self, kind, v):
        w = self.sched.cur()
        if w is None:
            return
        if kind == "rv":
            self.flush_read()
            self.pending_read = (w.idx, v, self.sched.steps)
        else:
            pr = self.pending_read
            if pr is not None and pr[0] == w.idx and pr[2] == self.sched.steps:
                self.pending_read = None
                self.labels.append("%d:rmw:%d:%d" % (w.idx, pr[1], v))
            else:
                self.log("wv:%d" % v, w)

    # ------------------------------------------------------------------ observation
    def queue_list(self):
        q = self.pool._pool
        dq = getattr(q, "queue", None)
        if dq is None:  # AsyncAdaptedQueue
            dq = q._queue._queue
        return list(dq)

    def observe(self, w):
        """state deltas since the previous hand-over, attributed to worker w"""
        cur = self.queue_list()
        last = self.last_queue
        if len(cur) != len(last) or any(a is not b for a, b in zip(cur, last)):
            if w is None:
                self.labels.append("9:qset")
            elif len(cur) == len(last) + 1 and all(a is b for a, b in zip(cur, last)):
                self.log("put:%d" % self.rid(cur[-1]), w)
            elif len(cur) == len(last) - 1 and all(a is b for a, b in zip(cur, last[1:])):
                self.log("pop:%d" % self.rid(last[0]), w)
            elif len(cur) == len(last) - 1 and all(a is b for a, b in zip(cur, last[:-1])):
                self.log("pop:%d" % self.rid(last[-1]), w)
            else:
                self.log("qset", w)
            self.last_queue = cur
        self.check_invariants()

    # ------------------------------------------------------------------ direct oracle
    def raw_overflow(self):
        return self.pool.__dict__["_ov"]

    def fail(self, key, detail):
        if len(self.oracle_failures) < 5:
            self.oracle_failures.append((key, detail + " @step %d" % self.sched.steps))

    def check_invariants(self):
        cfg = self.cfg
        size = cfg["size"]
        mo = self.pool._max_overflow
        ov = self.raw_overflow()
        q = self.last_queue
        if mo > -1:
            if ov > mo:
                self.fail("overflow-exceeds-max", "_overflow=%d > max_overflow=%d" % (ov, mo))
            oc = self.dbapi.open_count()
            if oc > size + mo:
                self.fail("open-exceeds-limit", "%d DBAPI connections open > pool_size %d + max_overflow %d" % (oc, size, mo))
        if size > 0 and len(q) > size:
            self.fail("idle-exceeds-size", "%d idle records > pool_size %d" % (len(q), size))
        live = [f for hl in self.held for f in hl]
        conns = [id(f.dbapi_connection) for f in live if f.dbapi_connection is not None]
        if len(conns) != len(set(conns)):
            self.fail("two-holders", "one DBAPI connection is held by two live checkouts")
        recs = [id(f._connection_record) for f in live if f._connection_record is not None]
        if len(recs) != len(set(recs)):
            self.fail("two-holders", "one connection record is held by two live checkouts")
        qids = {id(r) for r in q}
        if len(qids) != len(q):
            self.fail("queue-duplicate", "a record is queued twice")
        if qids & set(recs):
            self.fail("held-and-idle", "a checked-out record is also idle in the queue")
        qconns = [id(r.dbapi_connection) for r in q if r.dbapi_connection is not None]
        if set(qconns) & set(conns):
            self.fail("held-and-idle", "a checked-out DBAPI connection is also idle in the queue")

    # ------------------------------------------------------------------ tracing
    def on_trace(self, w, frame, event, arg):
        code = frame.f_code
        qn = code.co_qualname
        if event == "call":
            if qn == "QueuePool._do_get":
                self.log("cg", w)
            elif qn == "QueuePool._inc_overflow":
                self.log("ci", w)
            elif qn == "QueuePool._dec_overflow":
                self.log("cd", w)
            elif qn == "QueuePool._do_return_conn":
                self.log("cp:%d" % self.rid(frame.f_locals.get("record")), w)
            elif qn in ("Queue.get", "AsyncAdaptedQueue.get"):
                self.log("qg:%d" % (1 if frame.f_locals.get("block") else 0), w)
            elif qn == "_ConnectionRecord.close":
                back = frame.f_back
                if back is not None and back.f_code.co_qualname == "QueuePool._do_return_conn":
                    self.log("cl", w)
        elif event == "return":
            if qn == "Pool._create_connection" and arg is not None:
                k = id(arg)
                if k not in self.rec_ids:
                    self.rec_ids[k] = len(self.recs)
                    self.recs.append(arg)
                self.log("cr:%d" % self.rec_ids[k], w)
        elif event == "exception":
            # NB: never keep a reference to the exception (its traceback would keep
            # the frames, hence the fairies, alive and defeat the "drop" operation)
            e = arg[1]
            name = type(e).__name__
            if qn == "Pool._create_connection":
                if not getattr(e, "_verif_cf", False):
                    _mark(e, "_verif_cf")
                    self.log("cf", w)
                return
            if getattr(e, "_verif_seen", False):
                return
            if qn in ("Queue.get", "AsyncAdaptedQueue.get", "AsyncAdaptedQueue.get_nowait") and name == "Empty":
                _mark(e, "_verif_seen")
                self.log("qe", w)
                # direct oracle: a getter may give up only when no connection is idle -- a
                # connection returned before its deadline must serve it (the raise site holds
                # the queue mutex, so this is the state the getter decided on)
                if self.queue_list():
                    self.fail("empty-raised-with-idle-connection", "Queue.get raised Empty (timeout) for %s while %d connection(s) are idle in the pool" % (w.name, len(self.queue_list())))
            elif qn in ("Queue.put", "AsyncAdaptedQueue.put", "AsyncAdaptedQueue.put_nowait") and name == "Full":
                _mark(e, "_verif_seen")
                self.log("qf", w)
            elif qn == "QueuePool._do_get" and name == "TimeoutError":
                _mark(e, "_verif_seen")
                self.log("to", w)

    # ------------------------------------------------------------------ programs
    def _creator(self):
        return self.dbapi.connect()

    def _fail(self, kind, conn):
        w = self.sched.cur()
        if kind == "connect" and w is not None and self.failplan[w.idx] > 0:
            self.failplan[w.idx] -= 1
            return True
        return False

    def _program(self, w):
        sched = self.sched
        held = self.held[w.idx]
        out = self.outcomes[w.idx]
        for i, op in enumerate(self.programs[w.idx]):
            self.opidx[w.idx] = i
            sched.yield_point("op")
            kind = op[0]
            try:
                if kind == "co":
                    t0 = sched.now()
                    try:
                        f = self.pool.connect()
                    except Exception as e:
                        name = type(e).__name__
                        out.append(name)
                        if name == "TimeoutError" and sched.now() - t0 < self.cfg["timeout"]:
                            self.fail("early-timeout", "TimeoutError after %.1f < timeout %.1f" % (sched.now() - t0, self.cfg["timeout"]))
                        if name not in ("TimeoutError", "FakeError"):
                            self.fail("unexpected-exception", "connect() raised %s: %s" % (name, e))
                    else:
                        held.append(f)
                        out.append("ok")
                elif kind == "failnext":
                    self.failplan[w.idx] = op[1]
                    out.append("-")
                elif not held:
                    out.append("skip")
                else:
                    f = held.pop(op[1] % len(held))
                    if kind == "ci":
                        f.close()
                    elif kind == "inv":
                        f.invalidate()
                    elif kind == "soft":
                        f.invalidate(soft=True)
                        f.close()
                    elif kind == "drop":
                        del f
                    out.append("ok")
                    f = None
            except lib_sched.SchedKilled:
                raise
            except BaseException as e:  # noqa
                out.append(type(e).__name__)
                self.fail("unexpected-exception", "%s raised %s: %s" % (op, type(e).__name__, e))
        self.opidx[w.idx] = len(self.programs[w.idx])

    # ------------------------------------------------------------------ run
    def run(self, pool_cls_name="QueuePool"):
        import sqlalchemy.pool.base as pbase
        import sqlalchemy.pool.impl as pimpl
        import sqlalchemy.util.queue as squeue
        import warnings

        import logging

        lg = logging.getLogger("sqlalchemy")
        if not getattr(lg, "_verif_silenced", False):
            lg.addHandler(logging.NullHandler())
            lg.propagate = False
            lg._verif_silenced = True
        cfg = self.cfg
        sched = self.sched = lib_sched.Sched(
            self.chooser,
            trace_files=("sqlalchemy/pool/impl.py", "sqlalchemy/util/queue.py") + (("sqlalchemy/pool/base.py",) if self.trace_base else ()),
            event_files=() if self.trace_base else ("sqlalchemy/pool/base.py",),
            max_steps=self.max_steps,
        )
        sched.early_timeouts = self.early
        sched.on_trace = self.on_trace
        sched.observers.append(self.observe)
        self.dbapi = FakeDBAPI()
        self.dbapi.fail = self._fail

        class TimeShim:
            def __getattr__(s, k):
                import time as _t

                return getattr(_t, k)

            def time(s):
                return sched.now()

        saved = (squeue.threading, pimpl.threading, squeue._time, pbase.time)
        gc_was = gc.isenabled()
        gc.disable()
        try:
            shim = sched.threading_shim()
            squeue.threading = shim
            pimpl.threading = shim
            squeue._time = sched.now
            pbase.time = TimeShim()

            def rec_log(rec, v):
                w = sched.cur()
                if w is not None:
                    self.log("%s:%d" % ("fc" if v is None else "fs", self.rid(rec)), w)

            cls = traced_pool_class(getattr(pimpl, pool_cls_name), self.log_ov, lambda: sched.cur() is not None, rec_log if self.trace_records else None)
            self.pool = cls(
                self._creator,
                pool_size=cfg["size"],
                max_overflow=cfg["max_overflow"],
                use_lifo=cfg["lifo"],
                timeout=cfg["timeout"],
                **self.pool_kw,
            )
            lk = self.pool._overflow_lock
            if isinstance(lk, lib_sched.CoopLock):
                lk.on_acquire = lambda w: self.log("la", w)
                lk.on_release = lambda w: self.log("lr", w) if w is not None else None
            self.not_empty = getattr(self.pool._pool, "not_empty", None)

            def forced(w):
                # everyone is blocked and w's wait expires: if w waits for a connection
                # and one is idle in the queue, the wake-up was lost
                if w.waiting is not None and w.waiting["cond"] is self.not_empty and self.queue_list():
                    self.fail("waiter-not-served", "getter %s left waiting until its timeout although %d connection(s) are idle" % (w.name, len(self.queue_list())))

            sched.on_forced_timeout = forced
            for i in range(len(self.programs)):
                sched.spawn(self._program)
            with warnings.catch_warnings():
                warnings.simplefilter("ignore")
                self.status = sched.run()
            self.flush_read()
            for w in sched.workers:
                if w.exc is not None:
                    self.fail("harness-crash", "worker %s: %r" % (w.name, w.exc))
            if self.status == "deadlock":
                self.fail("deadlock", "all workers blocked without a pending timeout")
            elif self.status in ("steps", "stuck"):
                self.fail("no-progress", "run did not finish: %s" % self.status)
            if self.status == "done":
                # quiescent point: checked-out count equals live checkouts
                live = sum(1 for hl in self.held for f in hl)
                co = self.pool._pool.maxsize - len(self.queue_list()) + self.raw_overflow()
                if co != live:
                    self.fail("checkedout-mismatch", "checkedout()=%d but %d live checkouts" % (co, live))
        finally:
            squeue.threading, pimpl.threading, squeue._time, pbase.time = saved
            self.final = {
                "overflow": self.raw_overflow() if hasattr(self, "pool") else None,
                "queue": [self.rid(r) for r in self.queue_list()] if hasattr(self, "pool") else None,
                "live": sorted(self.rid(f._connection_record) for hl in self.held for f in hl if f._connection_record is not None),
            }
            # release everything outside the scheduler
            for hl in self.held:
                del hl[:]
            if gc_was:
                gc.enable()
        return self


class SimplePoolRun(PoolRun):
    """NullPool / SingletonThreadPool / StaticPool under the same scheduler; no LTS labels, direct oracle only"""

    def __init__(self, kind, cfg, programs, chooser, max_steps=6000):
        PoolRun.__init__(self, cfg, programs, chooser, max_steps=max_steps)
        self.kind = kind
        self.first_conn = {}

    def observe(self, w):
        live = [(t, f) for t, hl in enumerate(self.held) for f in hl]
        conns = [(t, id(f.dbapi_connection)) for t, f in live if f.dbapi_connection is not None]
        n = len(self.programs)
        if self.kind == "NullPool":
            ids = [c for _, c in conns]
            if len(ids) != len(set(ids)):
                self.fail("two-holders", "NullPool: one DBAPI connection held by two live checkouts")
            if self.dbapi.open_count() > len(live) + n:
                self.fail("nullpool-leak", "NullPool: %d connections open with %d live checkouts and %d threads" % (self.dbapi.open_count(), len(live), n))
        elif self.kind == "SingletonThreadPool":
            by = {}
            for t, c in conns:
                if by.setdefault(c, t) != t:
                    self.fail("two-holders", "SingletonThreadPool: threads %d and %d hold the same DBAPI connection" % (by[c], t))

    def _program(self, w):
        PoolRun._program(self, w)

    def run(self):
        import sqlalchemy.pool.base as pbase
        import sqlalchemy.pool.impl as pimpl
        import warnings

        sched = self.sched = lib_sched.Sched(
            self.chooser,
            trace_files=("sqlalchemy/pool/impl.py",),
            event_files=(),
            max_steps=self.max_steps,
        )
        sched.observers.append(self.observe)
        self.dbapi = FakeDBAPI()
        self.dbapi.fail = self._fail
        gc_was = gc.isenabled()
        gc.disable()
        saved = pimpl.threading
        try:
            pimpl.threading = sched.threading_shim()  # per-worker threading.local
            cls = getattr(pimpl, self.kind)
            if self.kind == "SingletonThreadPool":
                self.pool = cls(self._creator, pool_size=max(len(self.programs), self.cfg.get("size", 5)))
            else:
                self.pool = cls(self._creator)
            for i in range(len(self.programs)):
                sched.spawn(self._program)
            with warnings.catch_warnings():
                warnings.simplefilter("ignore")
                self.status = sched.run()
            for w in sched.workers:
                if w.exc is not None:
                    self.fail("harness-crash", "worker %s: %r" % (w.name, w.exc))
            if self.status != "done":
                self.fail("no-progress", "run did not finish: %s" % self.status)
            live = sum(len(hl) for hl in self.held)
            if self.status == "done" and self.kind == "NullPool" and self.dbapi.open_count() != live:
                self.fail("nullpool-leak", "NullPool at rest: %d connections open, %d live checkouts" % (self.dbapi.open_count(), live))
        finally:
            pimpl.threading = saved
            self.final = {"open": self.dbapi.open_count()}
            for hl in self.held:
                del hl[:]
            if gc_was:
                gc.enable()
        return self

    def queue_list(self):
        return []

    def check_invariants(self):
        pass
