"""Feature-matrix statement generator for the cache-key properties (C02, C03, C17).

A *feature spec* is a flat JSON dict of toggles; `build_feat` turns it into a Core
statement.  `mutate` changes exactly one toggle (structure) and `reroll` changes only
bound values, so that

    reroll(spec)  must hit the compiled cache of spec          (same SQL)
    mutate(spec)  must not be served spec's compilation        (unless the SQL is equal)

The toggles follow the `_traverse_internals` declarations of sql/elements.py,
sql/selectable.py, sql/dml.py, sql/functions.py: every attribute that changes the
rendered SQL should be reachable by some toggle.
"""

CHOICES = {
    "kind": ["select"] * 6 + ["compound", "insert", "update", "delete", "values", "text"],
    "distinct": [False, False, True],
    "distinct_on": [False, False, True],  # postgresql only
    "ncols": [1, 2, 3],
    "col_expr": ["plain", "arith", "func", "cast", "type_coerce", "case", "case_value", "extract", "collate", "literal_column", "tuple", "over", "filter", "label", "concat", "neg", "scalar_sub", "coalesce_pkg", "within_group", "bindlit"],
    "label_name": ["l1", "l2", None],
    "func_name": ["lower", "upper", "abs", "max"],
    "cast_type": ["Integer", "String", "String30", "Numeric", "Numeric10_2", "Float"],
    "extract_field": ["year", "month", "day"],
    "collation": ["NOCASE", "BINARY"],
    "case_else": [True, False],
    "over_kind": ["partition", "order", "rows", "range", "groups", "rows_exclude", "both"],
    "frame": [(None, 0), (-1, 1), (0, None), (-2, 0), (1, 3)],
    "where_op": ["eq", "ne", "lt", "ge", "like", "like_esc", "ilike", "notlike", "is_null", "isnot_null", "in", "notin", "in_empty", "between", "not", "and", "or", "exists", "in_subq", "is_distinct", "startswith", "contains_auto", "regexp", "bool_col", "any_op", "none"],
    "where_col": ["x", "y", "s"],
    "order": ["none", "asc", "desc", "nulls_first", "nulls_last", "desc_nulls_last", "label", "expr"],
    "group": [False, False, True],
    "having": [False, True],
    "limit": [None, None, 3, 7],
    "offset": [None, None, 2],
    "fetch": [None, None, None, "plain", "ties", "percent"],
    "for_update": ["none", "none", "none", "plain", "nowait", "read", "skip_locked", "key_share", "of"],
    "prefix": [None, None, "PFX1", "PFX2"],
    "suffix": [None, None, "SFX1"],
    "hint": [None, None, "stmt", "table"],
    "frm": ["t", "t", "alias", "join", "outerjoin", "fulljoin", "subquery", "cte", "cte_recursive", "cte_nesting", "cte_prefix", "lateralish", "tablesample", "values_from", "table_valued", "text_from"],
    "alias_name": ["a1", "a2", None],
    "cte_name": ["c1", "c2"],
    "schema": [None, None, "sch1", "sch2"],
    "table_name": ["t", "t", "t2"],
    "setop": ["union", "union_all", "intersect", "except_"],
    "bind_flag": ["plain", "plain", "literal_execute", "expanding_outside_in", "named", "unique_named", "typed_string", "typed_numeric", "callable", "required_none"],
    "correlate": [False, False, True],
    "dml_inline": [False, True],
    "dml_returning": [False, True],
    "dml_values": ["kw", "multi", "dict_cols", "from_select", "default", "ordered"],
    "dml_where": [False, True],
    "on_conflict": [None, None, "nothing", "update", "update_where"],
    "dml_prefix": [None, "OR REPLACE"],
    "return_defaults": [False, True],
    "values_name": ["v1", "v2"],
    "values_lb": [False, True],
    "text_variant": ["a", "b", "cols"],
    "exec_opt": [None, None, "opt_a"],
}

VALUE_KEYS = ["v1", "v2", "v3", "v4", "sv1", "sv2", "inlist"]

_SEL = {"kind": "select", "group": False}
_SELT = {"kind": "select", "group": False, "frm": "t"}
# context in which a toggle is visible in the SQL
PREREQ = {
    "distinct": _SEL, "distinct_on": _SEL, "ncols": _SELT,
    "col_expr": _SELT, "label_name": dict(_SELT, col_expr="label"), "func_name": dict(_SELT, col_expr="func"),
    "cast_type": dict(_SELT, col_expr="cast"), "extract_field": dict(_SELT, col_expr="extract"),
    "collation": dict(_SELT, col_expr="collate"), "case_else": dict(_SELT, col_expr="case"),
    "over_kind": dict(_SELT, col_expr="over"), "frame": dict(_SELT, col_expr="over", over_kind="rows"),
    "where_op": _SELT, "where_col": dict(_SELT, where_op="is_null"), "order": _SELT,
    "group": {"kind": "select", "frm": "t"}, "having": {"kind": "select", "frm": "t", "group": True},
    "limit": dict(_SELT, fetch=None), "offset": dict(_SELT, fetch=None, limit=3), "fetch": dict(_SELT, order="asc"),
    "for_update": _SELT, "prefix": _SELT, "suffix": _SELT, "hint": _SELT, "frm": _SEL,
    "alias_name": dict(_SEL, frm="alias"), "cte_name": dict(_SEL, frm="cte"), "schema": _SELT, "table_name": _SELT,
    "setop": {"kind": "compound"}, "bind_flag": dict(_SELT, where_op="eq", where_col="x", col_expr="arith"),
    "correlate": dict(_SELT, where_op="exists"), "dml_inline": {"kind": "insert", "dml_values": "kw", "on_conflict": None},
    "dml_returning": {"kind": "update"}, "dml_values": {"kind": "insert", "on_conflict": None}, "dml_where": {"kind": "delete", "where_op": "lt"},
    "on_conflict": {"kind": "insert", "dml_values": "kw"}, "dml_prefix": {"kind": "insert", "dml_values": "kw", "on_conflict": None},
    "return_defaults": {"kind": "insert", "dml_values": "kw", "dml_returning": False, "on_conflict": None},
    "values_name": {"kind": "values"}, "values_lb": {"kind": "values"}, "text_variant": {"kind": "text"},
    "exec_opt": _SELT, "kind": {},
}


def sweep_pairs(rng, per_toggle=None):
    """for every toggle, (base, mutant, toggle) with the toggle's prerequisites set and
    the toggle moved between two of its values"""
    out = []
    for k, opts in CHOICES.items():
        vals = []
        for o in opts:
            o = list(o) if isinstance(o, tuple) else o
            if o not in vals:
                vals.append(o)
        pairs = [(a, b) for a in vals for b in vals if a != b]
        rng.shuffle(pairs)
        if per_toggle is not None:
            pairs = pairs[:per_toggle]
        for a, b in pairs:
            base = gen_feat(rng)
            base.update(PREREQ.get(k, {}))
            base[k] = a
            m = dict(base)
            m[k] = b
            out.append((base, m, k))
    return out


def gen_feat(rng):
    sp = {k: rng.choice(v) for k, v in CHOICES.items()}
    sp["frame"] = list(sp["frame"])
    reroll(sp, rng, inplace=True)
    return sp


def reroll(sp, rng, inplace=False):
    sp = sp if inplace else dict(sp)
    sp["v1"] = rng.randint(1000, 1999)
    sp["v2"] = rng.randint(2000, 2999)
    sp["v3"] = rng.randint(1, 50)
    sp["v4"] = rng.randint(100, 999)
    sp["sv1"] = "v%d" % rng.randint(3000, 3100)
    sp["sv2"] = "w%d%%" % rng.randint(1, 99)
    sp["inlist"] = [rng.randint(1000, 1999) for _ in range(rng.choice([1, 2, 3, 5]))]
    return sp


def mutate(sp, rng):
    """copy of `sp` with exactly one structural toggle changed; returns (spec, toggle)"""
    sp = dict(sp)
    for _ in range(50):
        k = rng.choice(list(CHOICES))
        opts = [o for o in CHOICES[k] if (list(o) if isinstance(o, tuple) else o) != sp[k]]
        if opts:
            v = rng.choice(opts)
            sp[k] = list(v) if isinstance(v, tuple) else v
            return sp, k
    return sp, None


class Feat:
    def __init__(self):
        import sqlalchemy as sa

        self.sa = sa
        self.md = sa.MetaData()
        self._tabs = {}

    def tab(self, name, schema):
        sa = self.sa
        key = (name, schema)
        if key not in self._tabs:
            self._tabs[key] = sa.Table(
                name,
                sa.MetaData(),
                sa.Column("id", sa.Integer, primary_key=True),
                sa.Column("x", sa.Integer),
                sa.Column("y", sa.Integer),
                sa.Column("s", sa.String(20)),
                sa.Column("d", sa.DateTime),
                sa.Column("b", sa.Boolean),
                schema=schema,
            )
        return self._tabs[key]


def _type(sa, n):
    return {
        "Integer": sa.Integer(),
        "String": sa.String(),
        "String30": sa.String(30),
        "Numeric": sa.Numeric(),
        "Numeric10_2": sa.Numeric(10, 2),
        "Float": sa.Float(),
    }[n]


def build_feat(ft, sp, dialect_name="sqlite"):
    """feature spec -> statement (raises for combinations SQLAlchemy rejects)"""
    sa = ft.sa
    t = ft.tab(sp["table_name"], sp["schema"])
    u = ft.tab("u9", None)

    counter = [0]

    def bind(v, which=None):
        f = sp["bind_flag"]
        which = counter[0]  # every call site gets its own name (same name + different values is ill-defined)
        counter[0] += 1
        if f == "literal_execute":
            return sa.bindparam(None, v, literal_execute=True)
        if f == "named":
            return sa.bindparam("eb" if which == 0 else "nm%d" % which, v)
        if f == "unique_named":
            return sa.bindparam("un", v, unique=True)
        if f == "typed_string":
            return sa.bindparam(None, str(v), type_=sa.String())
        if f == "typed_numeric":
            return sa.bindparam(None, v, type_=sa.Numeric())
        if f == "callable":
            return sa.bindparam(None, callable_=lambda v=v: v, type_=sa.Integer())
        return v

    def col_expr(i):
        k = sp["col_expr"] if i == 0 else "plain"
        c = [t.c.x, t.c.y, t.c.id][i % 3]
        if k == "plain":
            return c
        if k == "arith":
            return (c + bind(sp["v3"])) * t.c.y
        if k == "func":
            return getattr(sa.func, sp["func_name"])(t.c.s if sp["func_name"] in ("lower", "upper") else c)
        if k == "cast":
            return sa.cast(c, _type(sa, sp["cast_type"]))
        if k == "type_coerce":
            return sa.type_coerce(c, _type(sa, sp["cast_type"]))
        if k == "case":
            return sa.case((c > bind(sp["v1"]), bind(sp["v3"], 1)), else_=bind(sp["v4"], 2)) if sp["case_else"] else sa.case((c > bind(sp["v1"]), bind(sp["v3"], 1)))
        if k == "case_value":
            return sa.case({sp["v1"]: "a", sp["v2"]: "b"}, value=c, else_="z" if sp["case_else"] else None)
        if k == "extract":
            return sa.extract(sp["extract_field"], t.c.d)
        if k == "collate":
            return sa.collate(t.c.s, sp["collation"])
        if k == "literal_column":
            return sa.literal_column("t.x + %d" % (1 if sp["case_else"] else 2))
        if k == "tuple":
            return sa.tuple_(t.c.x, t.c.y).in_([(sp["v1"], sp["v2"])])
        if k == "over":
            ok = sp["over_kind"]
            lo, hi = sp["frame"]
            kw = {}
            if ok in ("partition", "both"):
                kw["partition_by"] = t.c.y
            if ok in ("order", "both", "rows", "range", "groups", "rows_exclude"):
                kw["order_by"] = t.c.id
            if ok in ("rows", "rows_exclude"):
                kw["rows"] = (lo, hi)
            if ok == "range":
                kw["range_"] = (lo, hi)
            if ok == "groups":
                kw["groups"] = (lo, hi)
            if ok == "rows_exclude":
                kw["exclude"] = "TIES"
            return sa.func.sum(c).over(**kw)
        if k == "filter":
            return sa.func.count(c).filter(t.c.y > bind(sp["v2"]))
        if k == "label":
            return (c + 1).label(sp["label_name"] or "lz")
        if k == "concat":
            return t.c.s + bind(sp["sv1"])
        if k == "neg":
            return -c if sp["case_else"] else sa.distinct(c)
        if k == "scalar_sub":
            return sa.select(sa.func.max(u.c.x)).where(u.c.id == t.c.id).scalar_subquery()
        if k == "coalesce_pkg":
            return sa.func.pkg.coalesce(c, bind(sp["v3"])) if sp["case_else"] else sa.func.coalesce(c, bind(sp["v3"]))
        if k == "within_group":
            return sa.func.percentile_cont(0.5).within_group(c.desc() if sp["case_else"] else c)
        if k == "bindlit":
            return sa.literal(sp["v4"]) if sp["case_else"] else sa.literal(str(sp["v4"]))
        raise ValueError(k)

    def where_clause(tt):
        op = sp["where_op"]
        c = tt.c[sp["where_col"]]
        isstr = sp["where_col"] == "s"
        v = sp["sv1"] if isstr else sp["v1"]
        if op == "none":
            return None
        if op == "eq":
            if sp["bind_flag"] == "expanding_outside_in":
                return c == sa.bindparam("eb", [v], expanding=True)
            if sp["bind_flag"] == "required_none":
                return c == sa.bindparam("rq")
            return c == bind(v)
        if op == "ne":
            return c != bind(v)
        if op == "lt":
            return c < bind(v)
        if op == "ge":
            return c >= bind(v)
        if op == "like":
            return tt.c.s.like(sp["sv2"])
        if op == "like_esc":
            return tt.c.s.like(sp["sv2"], escape="/")
        if op == "ilike":
            return tt.c.s.ilike(sp["sv2"])
        if op == "notlike":
            return tt.c.s.not_like(sp["sv2"])
        if op == "is_null":
            return c.is_(None)
        if op == "isnot_null":
            return c.is_not(None)
        if op == "in":
            return tt.c.x.in_(sp["inlist"])
        if op == "notin":
            return tt.c.x.not_in(sp["inlist"])
        if op == "in_empty":
            return tt.c.x.in_([])
        if op == "between":
            return tt.c.x.between(sp["v1"], sp["v2"])
        if op == "not":
            return sa.not_(sa.and_(tt.c.x > sp["v1"], tt.c.y < sp["v2"]))
        if op == "and":
            return sa.and_(tt.c.x > sp["v1"], tt.c.y < sp["v2"])
        if op == "or":
            return sa.or_(tt.c.x > sp["v1"], tt.c.y < sp["v2"])
        if op == "exists":
            e = sa.exists().where(u.c.id == tt.c.id).where(u.c.x > sp["v1"])
            return e.correlate(tt) if sp["correlate"] else e
        if op == "in_subq":
            return tt.c.id.in_(sa.select(u.c.id).where(u.c.x > sp["v1"]))
        if op == "is_distinct":
            return tt.c.x.is_distinct_from(sp["v1"])
        if op == "startswith":
            return tt.c.s.startswith(sp["sv1"])
        if op == "contains_auto":
            return tt.c.s.contains(sp["sv2"], autoescape=True)
        if op == "regexp":
            return tt.c.s.regexp_match(sp["sv1"])
        if op == "bool_col":
            return tt.c.b
        if op == "any_op":
            return tt.c.x + sp["v3"] > sp["v1"]
        raise ValueError(op)

    def from_obj():
        f = sp["frm"]
        an = sp["alias_name"]
        if f == "t":
            return t, t
        if f == "alias":
            a = t.alias(an)
            return a, a
        if f in ("join", "outerjoin", "fulljoin"):
            j = t.join(u, u.c.id == t.c.id, isouter=f != "join", full=f == "fulljoin")
            return j, t
        if f == "subquery":
            sq = sa.select(t.c.id, t.c.x, t.c.y, t.c.s, t.c.d, t.c.b).where(t.c.y > sp["v2"]).subquery(an)
            return sq, sq
        if f.startswith("cte"):
            base = sa.select(t.c.id, t.c.x, t.c.y, t.c.s, t.c.d, t.c.b).where(t.c.y > sp["v2"])
            if f == "cte_prefix":
                c = base.cte(sp["cte_name"]).prefix_with("MATERIALIZED")
            else:
                c = base.cte(sp["cte_name"], recursive=f == "cte_recursive", nesting=f == "cte_nesting")
            return c, c
        if f == "lateralish":
            sq = sa.select(t.c.id, t.c.x, t.c.y, t.c.s, t.c.d, t.c.b).where(t.c.y > sp["v2"]).subquery(an)
            a2 = sq.alias("outer_" + (an or "z"))
            return a2, a2
        if f == "tablesample":
            ts = sa.tablesample(t, sa.func.bernoulli(sp["v3"]), name=an or "ts", seed=sa.func.random() if sp["case_else"] else None)
            return ts, ts
        if f == "values_from":
            v = sa.values(sa.column("id", sa.Integer), sa.column("x", sa.Integer), sa.column("y", sa.Integer), sa.column("s", sa.String), sa.column("d", sa.DateTime), sa.column("b", sa.Boolean), name=sp["values_name"], literal_binds=sp["values_lb"]).data([(1, sp["v1"], sp["v2"], sp["sv1"], None, True)])
            return v, v
        if f == "table_valued":
            tv = sa.func.json_each(sa.literal("[1]")).table_valued("value", name=an or "je")
            if sp["case_else"]:
                tv = tv.render_derived()
            j = t.join(tv, sa.true())
            return j, t
        if f == "text_from":
            ts = sa.text("select id, x, y, s, d, b from t where x > :tx" + (" " if sp["case_else"] else "")).bindparams(tx=sp["v1"]).columns(sa.column("id"), sa.column("x"), sa.column("y"), sa.column("s"), sa.column("d"), sa.column("b")).subquery(an or "txt")
            return ts, ts
        raise ValueError(f)

    def select_stmt():
        frm, tt = from_obj()
        if tt is t:
            cols = [col_expr(i) for i in range(sp["ncols"])]
        else:
            cols = [tt.c.x, tt.c.y, tt.c.id][: sp["ncols"]]
            if sp["col_expr"] != "plain" and tt is not t:
                cols[0] = (tt.c.x + bind(sp["v3"])).label(sp["label_name"] or "e0")
        st = sa.select(*cols).select_from(frm)
        w = where_clause(tt)
        if w is not None:
            st = st.where(w)
        if sp["group"]:
            st = sa.select(tt.c.y, sa.func.count(tt.c.id).label("n")).select_from(frm)
            if w is not None:
                st = st.where(w)
            st = st.group_by(tt.c.y)
            if sp["having"]:
                st = st.having(sa.func.count(tt.c.id) > sp["v3"])
        if sp["distinct"]:
            st = st.distinct()
        if sp["distinct_on"] and dialect_name == "postgresql":
            st = st.distinct(tt.c.y)
        o = sp["order"]
        oc = tt.c.y if sp["group"] else tt.c.x
        if o == "asc":
            st = st.order_by(oc.asc())
        elif o == "desc":
            st = st.order_by(oc.desc())
        elif o == "nulls_first":
            st = st.order_by(oc.nulls_first())
        elif o == "nulls_last":
            st = st.order_by(oc.nulls_last())
        elif o == "desc_nulls_last":
            st = st.order_by(oc.desc().nulls_last())
        elif o == "label":
            st = st.order_by(sa.desc("n") if sp["group"] else oc)
        elif o == "expr":
            st = st.order_by(oc + sp["v3"])
        if sp["fetch"] and dialect_name in ("postgresql", "oracle", "mssql"):
            st = st.fetch(sp["v3"], with_ties=sp["fetch"] == "ties", percent=sp["fetch"] == "percent")
            if sp["offset"] is not None:
                st = st.offset(sp["offset"])
            if o == "none":
                st = st.order_by(oc)
        else:
            if sp["limit"] is not None:
                st = st.limit(sp["limit"])
            if sp["offset"] is not None:
                st = st.offset(sp["offset"])
                if o == "none" and dialect_name in ("mssql", "oracle"):
                    st = st.order_by(oc)
        fu = sp["for_update"]
        if fu != "none":
            st = st.with_for_update(nowait=fu == "nowait", read=fu == "read", skip_locked=fu == "skip_locked", key_share=fu == "key_share", of=t.c.id if fu == "of" and tt is t else None)
        if sp["prefix"]:
            st = st.prefix_with(sp["prefix"])
        if sp["suffix"]:
            st = st.suffix_with(sp["suffix"])
        if sp["hint"] == "stmt":
            st = st.with_statement_hint("HINT_A" if sp["case_else"] else "HINT_B")
        elif sp["hint"] == "table" and tt is t:
            st = st.with_hint(t, "IDX_A" if sp["case_else"] else "IDX_B", "*")
        if sp["exec_opt"]:
            st = st.execution_options(my_opt=sp["exec_opt"])
        return st

    k = sp["kind"]
    if k == "select":
        return select_stmt()
    if k == "compound":
        a = sa.select(t.c.x, t.c.y).where(t.c.x > sp["v1"])
        b = sa.select(u.c.x, u.c.y).where(u.c.y < sp["v2"])
        st = getattr(sa, sp["setop"])(a, b)
        if sp["order"] != "none":
            st = st.order_by(sa.text("1"))
        if sp["limit"] is not None:
            st = st.limit(sp["limit"])
        if sp["offset"] is not None:
            st = st.offset(sp["offset"])
        return st
    if k == "values":
        v = sa.values(sa.column("a", sa.Integer), sa.column("b", sa.String), name=sp["values_name"], literal_binds=sp["values_lb"]).data([(sp["v1"], sp["sv1"]), (sp["v2"], sp["sv2"])][: 1 + (sp["ncols"] > 1)])
        return sa.select(v)
    if k == "text":
        tv = sp["text_variant"]
        if tv == "a":
            return sa.text("select x from t where x > :p1 and y < :p2").bindparams(p1=sp["v1"], p2=sp["v2"])
        if tv == "b":
            return sa.text("select x from t where x >= :p1 and y < :p2").bindparams(p1=sp["v1"], p2=sp["v2"])
        return sa.text("select x, y from t where x > :p1").bindparams(sa.bindparam("p1", sp["v1"], type_=_type(sa, sp["cast_type"]))).columns(sa.column("x", sa.Integer), sa.column("y", sa.Integer))
    if k == "insert":
        if dialect_name == "sqlite" and sp["on_conflict"]:
            from sqlalchemy.dialects.sqlite import insert as ins
        elif dialect_name == "postgresql" and sp["on_conflict"]:
            from sqlalchemy.dialects.postgresql import insert as ins
        else:
            ins = sa.insert
        st = ins(t)
        dv = sp["dml_values"]
        if dv == "kw":
            st = st.values(x=sp["v1"], y=bind(sp["v2"]))
        elif dv == "multi":
            st = st.values([{"x": sp["v1"], "y": sp["v2"]}, {"x": sp["v3"], "y": sp["v4"]}][: 1 + (sp["ncols"] > 1)])
        elif dv == "dict_cols":
            st = st.values({t.c.x: sp["v1"], t.c.s: sp["sv1"]})
        elif dv == "from_select":
            st = st.from_select(["x", "y"] if sp["case_else"] else ["y", "x"], sa.select(u.c.x, u.c.y).where(u.c.x > sp["v1"]))
        elif dv == "ordered":
            st = st.values(y=sp["v2"], x=sp["v1"])
        if sp["dml_inline"]:
            st = st.inline()
        if sp["dml_returning"]:
            st = st.returning(t.c.id, t.c.x) if sp["ncols"] > 1 else st.returning(t.c.id)
        if sp["return_defaults"] and not sp["dml_returning"]:
            st = st.return_defaults()
        if sp["dml_prefix"]:
            st = st.prefix_with(sp["dml_prefix"])
        oc = sp["on_conflict"]
        if oc and dialect_name in ("sqlite", "postgresql") and dv != "default":
            if oc == "nothing":
                st = st.on_conflict_do_nothing(index_elements=["id"] if sp["case_else"] else None)
            elif oc == "update":
                st = st.on_conflict_do_update(index_elements=["id"], set_={"x": st.excluded.x if sp["case_else"] else sp["v4"]})
            else:
                st = st.on_conflict_do_update(index_elements=["id"], set_={"x": sp["v4"]}, where=t.c.x > sp["v1"])
        return st
    if k == "update":
        st = sa.update(t)
        if sp["dml_values"] == "ordered":
            st = st.ordered_values((t.c.y, sp["v2"]), (t.c.x, t.c.x + sp["v3"]))
        elif sp["dml_values"] == "dict_cols":
            st = st.values({t.c.x: t.c.y + bind(sp["v3"]), t.c.s: sp["sv1"]})
        else:
            st = st.values(x=sp["v1"], y=t.c.y + sp["v3"])
        if sp["dml_where"]:
            w = where_clause(t)
            if w is not None:
                st = st.where(w)
        if sp["frm"] == "join":
            st = st.where(t.c.id == u.c.id)
        if sp["dml_returning"]:
            st = st.returning(t.c.id)
        if sp["dml_inline"]:
            st = st.inline()
        if sp["hint"] == "table":
            st = st.with_hint("UH_A" if sp["case_else"] else "UH_B")
        return st
    if k == "delete":
        st = sa.delete(t)
        if sp["dml_where"]:
            w = where_clause(t)
            if w is not None:
                st = st.where(w)
        if sp["frm"] == "join":
            st = st.where(t.c.id == u.c.id)
        if sp["dml_returning"]:
            st = st.returning(t.c.id, t.c.y) if sp["ncols"] > 1 else st.returning(t.c.id)
        if sp["prefix"]:
            st = st.prefix_with(sp["prefix"])
        return st
    raise ValueError(k)


# --------------------------------------------------------------------------- type-argument boundary variants
_TYPE_CONTEXT = {("Numeric", "scale"): {"precision": 10}, ("Float", "decimal_return_scale"): {"asdecimal": True}, ("Numeric", "decimal_return_scale"): {"precision": 12, "scale": 4}}
_INT_ARGS = ("length", "precision", "scale", "decimal_return_scale", "second_precision", "day_precision")


def type_variant_groups(sa):
    """{(class name, ctor argument): [(label, type instance), ...]} — for every public
    constructor argument of the common SQL types: unset, the falsy boundary value
    (0 / False / '') and a truthy value"""
    import inspect

    out = {}
    classes = [sa.Numeric, sa.Float, sa.String, sa.Unicode, sa.Text, sa.DateTime, sa.Time, sa.Boolean, sa.LargeBinary, sa.Interval, sa.Double, sa.DECIMAL, sa.VARCHAR, sa.CHAR, sa.TIMESTAMP, sa.JSON, sa.Uuid]
    for cls in classes:
        try:
            sig = inspect.signature(cls.__init__)
        except (TypeError, ValueError):
            continue
        for pname, par in sig.parameters.items():
            if pname == "self" or par.kind in (par.VAR_POSITIONAL, par.VAR_KEYWORD) or pname.startswith("_"):
                continue
            if pname in _INT_ARGS:
                vals = [("unset", None), ("0", 0), ("7", 7)]
            elif isinstance(par.default, bool):
                vals = [("False", False), ("True", True)]
            elif pname == "collation":
                vals = [("unset", None), ("''", ""), ("nocase", "nocase")]
            else:
                continue
            ctxkw = _TYPE_CONTEXT.get((cls.__name__, pname), {})
            vs = []
            for lbl, v in vals:
                kw = dict(ctxkw)
                if v is not None:
                    kw[pname] = v
                try:
                    vs.append(("%s(%s=%s)" % (cls.__name__, pname, lbl), cls(**kw)))
                except Exception:
                    pass
            if len(vs) >= 2:
                out[(cls.__name__, pname)] = vs
    return out


def type_desc(t):
    """constructor-level identity of a type instance (None = unset)"""
    from sqlalchemy import util

    names = util.get_cls_kwargs(type(t))
    return (type(t).__name__, tuple(sorted((k, repr(v)) for k, v in t.__dict__.items() if k in names and not k.startswith("_") and v is not None)))


DIALECTS = ["sqlite", "postgresql", "mysql", "mssql", "oracle"]


def get_dialect(name):
    from sqlalchemy.dialects import mssql, mysql, oracle, postgresql, sqlite

    return {"sqlite": sqlite, "postgresql": postgresql, "mysql": mysql, "mssql": mssql, "oracle": oracle}[name].dialect()


def _plain(v):
    if callable(v):
        return "<callable>"
    if isinstance(v, (int, str, list, tuple)) or v is None:
        return v
    return repr(v)


def compile_via(stmt, dialect, cache, params=None):
    """the path Connection._execute_clauseelement takes, without a connection:
    _compile_w_cache + construct_params(extracted) + post-compile expansion +
    positional assembly.  -> (canonical text, bind types, cache stat, raw sql)

    canonical text = the statement with every placeholder replaced by the value the
    DBAPI would take for it (bind *names* of anonymous parameters legitimately depend
    on which statement populated the cache, values and positions must not)."""
    from harness import lib_binds as lb

    keys = sorted(params) if params else []
    compiled, extracted, param_dict, hit = stmt._compile_w_cache(dialect, compiled_cache=cache, column_keys=keys, for_executemany=False, schema_translate_map=None)
    pd = compiled.construct_params(params, extracted_parameters=extracted, escape_names=False, _collected_params=param_dict)
    sql = compiled.string
    pt = compiled.positiontup
    if compiled.literal_execute_params or compiled.post_compile_params:
        es = compiled._process_parameters_for_postcompile(dict(pd))
        sql, pd, pt = es.statement, es.parameters, es.positiontup
    if compiled.positional:
        dbparams = tuple(_plain(pd[k]) for k in pt)
    else:
        esc = compiled.escaped_bind_names
        dbparams = {esc.get(k, k): _plain(v) for k, v in pd.items()}
    style = dialect.paramstyle
    if style in ("format", "pyformat"):
        canon = lb.substitute(style, sql, dbparams)
    else:
        canon = lb.substitute(style, sql, dbparams)
    types = sorted(repr(type_desc(bp.type)) for bp in compiled.bind_names)
    try:
        types += ["result:" + repr(type_desc(rc[3])) for rc in compiled._result_columns]
    except Exception:
        pass
    return canon, types, str(hit), sql
