"""Executor for C33: op histories on a REAL sqlalchemy.orm.Session over a SQLite file DB.

One mapped class Item(id INTEGER PRIMARY KEY (not autoincrement), v INTEGER).
Objects are created by the history and identified by their index of creation.

op tokens
  A<o>:<pk>:<v>   create object o = Item(id=pk, v=v) and session.add(it)
  M<o>:<v>        o.v = v
  K<o>:<pk>       o.id = pk            (primary-key switch)
  D<o>            session.delete(o)
  F               session.flush()
  L<o>            read o.v (loads / refreshes if expired)
  b n             session.begin() / session.begin_nested()
  C R X           session.commit() / rollback() / close()
  Z0 Z1           session.autoflush = False / True (a `no_autoflush` block begins / ends)
  c<h> r<h> x<h>  handle h (a SessionTransaction returned by begin/begin_nested or
                  autobegun) .commit() / .rollback() / .close()

record per op, fields separated by `/`:
  res / inTxn inNested / depth / objs / committed / working
where objs = `,`-joined per object  <state><in new><in dirty><in deleted>:<key>:<id>:<v>
  state: T transient, P pending, S persistent, D deleted, X detached
  key: identity key pk or N;  id / v: loaded value from __dict__ or E (expired / absent)
committed / working = rows `id=v` joined by `,` (`-` for none)
"""
import gc
import os
import sqlite3
import warnings

from harness import lib_txn


class SWorld:
    def __init__(self, expire_on_commit=True, tag="s", autoflush=True):
        import sqlalchemy as sa
        from sqlalchemy import orm
        from sqlalchemy import pool as sapool
        import logging

        logging.getLogger("sqlalchemy.pool").setLevel(logging.CRITICAL)
        self.sa = sa
        self.orm = orm
        lib_txn._SERIAL += 1
        self.path = os.path.join(lib_txn.tmpdir(), "%s-%d-%d.db" % (tag, os.getpid(), lib_txn._SERIAL))
        setup = sqlite3.connect(self.path)
        setup.execute("create table item (id integer primary key, v integer)")
        setup.commit()
        setup.close()
        self.obs = sqlite3.connect(self.path, isolation_level=None, timeout=0)

        def creator():
            return sqlite3.connect(self.path, autocommit=False, timeout=0, check_same_thread=False)

        self.engine = sa.create_engine("sqlite://", creator=creator, poolclass=sapool.QueuePool)
        if not hasattr(SWorld, "_Item"):
            Base = orm.declarative_base()

            class Item(Base):
                __tablename__ = "item"
                id = sa.Column(sa.Integer, primary_key=True, autoincrement=False)
                v = sa.Column(sa.Integer)

            SWorld._Item = Item
        self.Item = SWorld._Item
        self.sess = orm.Session(self.engine, expire_on_commit=expire_on_commit, autoflush=autoflush)
        self.objs = []
        self.handles = []
        self.warns = 0

    def dispose(self):
        try:
            try:
                self.sess.close()
            except Exception:  # noqa: BLE001
                pass
            self.objs = []
            self.handles = []
            self.engine.dispose()
            self.obs.close()
            lib_txn._DISPOSED += 1
            if lib_txn._DISPOSED % 200 == 0:
                gc.collect()
        finally:
            for ext in ("", "-journal"):
                try:
                    os.remove(self.path + ext)
                except OSError:
                    pass

    # ------------------------------------------------------------------
    def _classify(self, e):
        exc = self.sa.exc
        oexc = self.orm.exc
        if isinstance(e, exc.PendingRollbackError):
            return "PRE"
        if isinstance(e, exc.ResourceClosedError):
            return "RCE"
        if isinstance(e, exc.IntegrityError):
            return "IE"
        if isinstance(e, exc.DBAPIError):
            return "DBAPI:" + type(e).__name__
        if isinstance(e, oexc.ObjectDeletedError):
            return "ODE"
        if isinstance(e, oexc.DetachedInstanceError):
            return "DIE"
        if isinstance(e, oexc.FlushError):
            return "FE"
        if isinstance(e, exc.InvalidRequestError):
            return "IRE"
        return "EXC:" + type(e).__name__

    def do(self, tok):
        s = self.sess
        t0 = tok[0]
        try:
            if t0 == "A":
                o, pk, v = (int(x) for x in tok[1:].split(":"))
                assert o == len(self.objs)
                it = self.Item(id=pk, v=v)
                self.objs.append(it)
                s.add(it)
            elif t0 == "M":
                o, v = (int(x) for x in tok[1:].split(":"))
                self.objs[o].v = v
            elif t0 == "K":
                o, pk = (int(x) for x in tok[1:].split(":"))
                self.objs[o].id = pk
            elif t0 == "D":
                s.delete(self.objs[int(tok[1:])])
            elif t0 == "L":
                self.objs[int(tok[1:])].v
            elif tok == "F":
                s.flush()
            elif tok == "b":
                s.begin()
            elif tok == "n":
                s.begin_nested()
            elif tok == "C":
                s.commit()
            elif tok == "R":
                s.rollback()
            elif tok == "X":
                s.close()
            elif tok in ("Z0", "Z1"):
                # what entering / leaving a `with session.no_autoflush:` block does
                s.autoflush = tok == "Z1"
            elif t0 == "c":
                self.handles[int(tok[1:])].commit()
            elif t0 == "r":
                self.handles[int(tok[1:])].rollback()
            elif t0 == "x":
                self.handles[int(tok[1:])].close()
            else:
                raise ValueError("bad op " + tok)
            return "ok"
        except Exception as e:  # noqa: BLE001
            if isinstance(e, (ValueError, AssertionError)) and "bad op" in str(e):
                raise
            return self._classify(e)

    def _register_handles(self):
        # every SessionTransaction on the stack, outermost first, in creation order
        t = self.sess._transaction
        chain = []
        while t is not None:
            chain.append(t)
            t = t._parent
        for t in reversed(chain):
            if not any(t is x for x in self.handles):
                self.handles.append(t)

    def rows(self, conn):
        try:
            return ["%d=%s" % (r[0], r[1]) for r in conn.execute("select id, v from item order by id").fetchall()]
        except sqlite3.OperationalError:
            return ["LOCKED"]

    def working(self):
        t = self.sess._transaction
        while t is not None:
            for k, (conn, trans, sc, ac) in list(t._connections.items()):
                f = conn._dbapi_connection
                if f is not None and f.dbapi_connection is not None:
                    return self.rows(f.dbapi_connection)
            t = t._parent
        return self.rows(self.obs)

    def record(self, res):
        sa = self.sa
        s = self.sess
        fl = lambda l: ",".join(str(x) for x in l) if l else "-"  # noqa: E731
        objs = []
        for it in self.objs:
            st = sa.inspect(it)
            if st.transient:
                c = "T"
            elif st.pending:
                c = "P"
            elif st.deleted:
                c = "D"
            elif st.persistent:
                c = "S"
            elif st.detached:
                c = "X"
            else:
                c = "?"
            flags = "".join("1" if x else "0" for x in (it in s.new, it in s.dirty, it in s.deleted))
            key = str(st.key[1][0]) if st.key is not None else "N"
            d = it.__dict__
            objs.append("%s%s:%s:%s:%s" % (c, flags, key, d.get("id", "E"), d.get("v", "E")))
        depth = 0
        t = s._transaction
        while t is not None:
            depth += 1
            t = t._parent
        return "/".join(
            [
                res,
                ("1" if s.in_transaction() else "0") + ("1" if s.in_nested_transaction() else "0"),
                str(depth),
                fl(objs),
                fl(self.rows(self.obs)),
                fl(self.working()),
            ]
        )

    def step(self, tok):
        with warnings.catch_warnings(record=True) as w:
            warnings.simplefilter("always")
            res = self.do(tok)
            self._register_handles()
        self.warns += sum(1 for x in w if issubclass(x.category, self.sa.exc.SAWarning))
        return self.record(res)


FIELDS = ["res", "flags", "depth", "objs", "committed", "working"]


def parse_record(rec):
    return dict(zip(FIELDS, rec.split("/")))


def run_ops(ops, expire_on_commit=True, tag="s", autoflush=True):
    w = SWorld(expire_on_commit, tag, autoflush)
    try:
        return [w.step(t) for t in ops]
    finally:
        w.dispose()
