"""Shared run/oracle code of the object-graph properties (C30, C31, C39)."""
import multiprocessing as mp
import random

from harness import lib_graph as G

PROFILES = ["mixed", "o2m", "tree", "m2m", "cycle", "inherit", "oneway", "oneway", "graph", "graph", "unit", "unit", "peer", "peer", "owner", "owner", "composite", "composite", "chain", "chain"]


def first_failure(res):
    """direct oracle on run_case output: first round that fails
    -> dict(round=, kind='flush-raised'|'mutation-raised'|'db-differs'|'reload-differs', detail=)"""
    for rn, r in enumerate(res):
        if None in r["applied"] or False in r["applied"]:
            if r["error"] and r["error"].startswith("mutation"):
                return dict(round=rn, kind="mutation-raised", exc=r["error"].split(": ")[1].split(":")[0], detail=r["error"][:400])
            if False in r["applied"]:
                return dict(round=rn, kind="inapplicable", exc="", detail="mutation not applicable: case is not well formed")
        if r["error"]:
            return dict(round=rn, kind="flush-raised", exc=r["error"].split(":")[0], detail=r["error"][:400])
        for t in r["expected"]:
            if r["db"][t] != r["expected"][t]:
                return dict(round=rn, kind="db-differs", exc="", table=t,
                            detail="table %s holds %s, the object graph says %s" % (t, r["db"][t], r["expected"][t]))
        if "reload" in r:
            for t in r["expected"]:
                if r["reload"][t] != r["expected"][t]:
                    return dict(round=rn, kind="reload-differs", exc="", table=t,
                                detail="a fresh Session loads %s for %s, the object graph says %s" % (r["reload"][t], t, r["expected"][t]))
    return None


def _worker(job):
    seedstr, n, sizes, capture = job[:4]
    profiles = job[4] if len(job) > 4 and job[4] else PROFILES
    rng = random.Random(seedstr)
    out = []
    for _ in range(n):
        prof = rng.choice(profiles)
        rounds = G.gen_rounds(rng, rng.randint(1, sizes[0]), rng.randint(2, sizes[1]), prof)
        res = G.run_case(rounds, capture=capture)
        deps = [d for r in res for d in r.get("deps", [])] if capture else []
        nst = sum(len(r["stmts"]) for r in res)
        kinds = sorted({p[0] + " " + p[1] for r in res for p in r["params"]})
        out.append((prof, rounds, first_failure(res), deps, nst, kinds))
    return out


def run_random(pid, seed, tag, nchunks, per, sizes, capture=False, procs=6, profiles=None):
    jobs = [("%s:%d:%d:%s" % (pid, seed, c, tag), per, sizes, capture, profiles) for c in range(nchunks)]
    if procs <= 1:
        res = [_worker(j) for j in jobs]
    else:
        ctx = mp.get_context("fork")
        with ctx.Pool(min(procs, len(jobs))) as pool:
            res = pool.map(_worker, jobs, chunksize=1)
    return [c for chunk in res for c in chunk]


def replay_case(rounds, attempts=1):
    """attempts > 1: the unit of work iterates sets of instance states (hashed by address), so a
    failure that depends on that order shows only in some executions of the same history"""
    for _ in range(max(1, attempts)):
        res = G.run_case(rounds)
        f = first_failure(res)
        if f is not None:
            break
    return res, f
