"""Shared fixture helper of the orm2 property modules (c44 … c53).

`odd_mixin(*attrs)` returns a mixin that does to a mapped class what applications do:
container protocol and value equality.  Instances are falsy (`__len__` = 0, `__bool__` =
False) and two distinct instances holding equal values compare and hash equal (the hash is
one constant, so every dict / set keyed by instances degenerates to equality scans).  The
ORM has to go by identity (`is`, `is not None`, IdentitySet, InstanceState) throughout; a
truthiness test or a `==` on an instance anywhere in a code path these checks exercise
shows up as a property violation.  Values are read from `__dict__` only (no attribute
access, so no lazy load or refresh is ever triggered by a comparison).
"""


def odd_mixin(*attrs):
    class Odd:
        def _value(self):
            d = self.__dict__
            return tuple(d.get(a) for a in attrs)

        def __len__(self):
            return 0

        def __bool__(self):
            return False

        def __eq__(self, other):
            return type(other) is type(self) and self._value() == other._value()

        def __ne__(self, other):
            return not self.__eq__(other)

        def __hash__(self):
            return 7

    return Odd
