"""Deterministic cooperative scheduler for the concurrency properties (C25, C28, C52, ...).

Every worker ("thread") is a greenlet; exactly one runs at any time: a worker runs
from one *yield point* to the next and then the scheduler picks the next worker from
a ``Chooser`` (seeded random walk, PCT-style priorities, bounded DFS or the replay
of a recorded choice list).  Greenlets instead of OS threads make a context switch
cost ~3 us and make the run independent of machine load; what the code under test
can observe of a thread -- ``threading.local``, ``threading.get_ident``, lock
ownership -- is supplied per worker by the injected ``threading`` shim.
(``sys.settrace`` callbacks switch greenlets through ``sys.call_tracing`` so that the
interpreter's "inside a trace function" flag is saved/restored per worker.)

Yield points:
  * every ``line`` event (``sys.settrace``) inside the files / code objects the
    caller asks to trace (e.g. pool/impl.py, util/queue.py),
  * every acquire / release / wait / notify of the cooperative ``Lock``, ``RLock``
    and ``Condition`` which the caller injects into the module namespaces of the
    code under test (``mod.threading = sched.threading_shim()``) -- nothing in /repo
    is edited,
  * explicit ``sched.yield_point()`` calls of the harness program.

Time is virtual (``sched.now()``); a condition wait with a timeout expires only
when the scheduler decides so: *forced* when no worker is runnable (the clock jumps
to the earliest deadline), or *early* when the chooser asks for it (models the race
between a timeout and a concurrent notify).

Before a worker hands control back it calls every registered observer, so state
deltas (queue contents, counters) are attributed to the worker that caused them, in
the order in which they happened.
"""
from __future__ import annotations

import sys
import threading

import greenlet


class Deadlock(Exception):
    pass


class StepLimit(Exception):
    pass


class SchedKilled(BaseException):
    """raised inside workers when the run is torn down"""


# --------------------------------------------------------------------------- choosers
class RandomChooser:
    """sticky random walk: keep running the current worker with probability
    1-p_switch, otherwise pick uniformly; early timeouts with probability p_early"""

    def __init__(self, rng, p_switch=0.2, p_early=0.0):
        self.rng, self.p_switch, self.p_early = rng, p_switch, p_early
        self.choices = []

    def pick(self, options, current):
        # options: sorted list of str ("t0", "t1", "to:t2" ...)
        plain = [o for o in options if not o.startswith("to:")]
        early = [o for o in options if o.startswith("to:")]
        if early and (not plain or self.rng.random() < self.p_early):
            c = self.rng.choice(early)
        elif current in plain and self.rng.random() >= self.p_switch:
            c = current
        else:
            c = self.rng.choice(plain)
        self.choices.append(c)
        return c


class PCTChooser:
    """PCT (Burckhardt et al.): random distinct priorities, d-1 random change points
    at which the running worker's priority drops below everyone else's."""

    def __init__(self, rng, nthreads, depth=3, est_steps=300, p_early=0.0):
        self.rng = rng
        pr = list(range(depth, depth + nthreads))
        rng.shuffle(pr)
        self.prio = {"t%d" % i: pr[i] for i in range(nthreads)}
        self.change = sorted(rng.randrange(1, max(2, est_steps)) for _ in range(depth - 1))
        self.low = depth - 1
        self.step = 0
        self.p_early = p_early
        self.choices = []

    def pick(self, options, current):
        self.step += 1
        plain = [o for o in options if not o.startswith("to:")]
        early = [o for o in options if o.startswith("to:")]
        if early and (not plain or self.rng.random() < self.p_early):
            c = self.rng.choice(early)
        else:
            while self.change and self.change[0] <= self.step:
                self.change.pop(0)
                if current in self.prio:
                    self.low -= 1
                    self.prio[current] = self.low
            c = max(plain, key=lambda o: self.prio.get(o, 0))
        self.choices.append(c)
        return c


class ReplayChooser:
    """replays a recorded choice list; falls back to the first option"""

    def __init__(self, choices):
        self.todo = list(choices)
        self.choices = []
        self.diverged = False

    def pick(self, options, current):
        c = self.todo.pop(0) if self.todo else None
        if c not in options:
            if c is not None:
                self.diverged = True
            plain = [o for o in options if not o.startswith("to:")]
            c = current if current in plain else (plain[0] if plain else options[0])
        self.choices.append(c)
        return c


class DFSChooser:
    """one path of a bounded depth-first exploration.  `prefix` = forced choices;
    afterwards run non-preemptively (stay on the current worker; on block/finish the
    lowest-numbered option).  Records for every step the alternatives that a
    preemption could have taken, so the driver of the DFS can branch."""

    def __init__(self, prefix):
        self.prefix = list(prefix)
        self.choices = []
        self.alts = []  # per step: (options, current)

    def pick(self, options, current):
        k = len(self.choices)
        plain = [o for o in options if not o.startswith("to:")]
        if k < len(self.prefix) and self.prefix[k] in options:
            c = self.prefix[k]
        elif current in plain:
            c = current
        else:
            c = plain[0] if plain else options[0]
        self.alts.append((list(options), current))
        self.choices.append(c)
        return c


# --------------------------------------------------------------------------- workers
class Worker:
    def __init__(self, sched, idx, fn):
        self.sched = sched
        self.idx = idx
        self.name = "t%d" % idx
        self.fn = fn
        self.status = "ready"  # ready | done
        self.blocked_on = None  # CoopLock the worker wants
        self.waiting = None  # dict(cond, deadline, notified, timedout)
        self.exc = None
        self.data = {}  # free for the harness
        self.locals = {}  # id(GLocal) -> namespace dict
        self.glet = greenlet.greenlet(self._main, parent=sched.hub)
        self.glet._verif_worker = self

    def _main(self):
        s = self.sched
        try:
            if not s.killed:
                self.fn(self)
        except SchedKilled:
            pass
        except BaseException as e:  # program-level crash (harness bug or unexpected)
            self.exc = e
        finally:
            self.status = "done"
            try:
                s._observe()
            except BaseException as e:  # pragma: no cover
                self.exc = self.exc or e
        # falling off the end switches to the parent (the hub)

    def runnable(self):
        if self.status != "ready":
            return False
        if self.waiting is not None:
            return self.waiting["notified"] or self.waiting["timedout"]
        if self.blocked_on is not None:
            return self.blocked_on.owner is None
        return True


class Sched:
    def __init__(self, chooser, trace_files=(), max_steps=20000, event_files=()):
        self.chooser = chooser
        self.hub = greenlet.getcurrent()
        self.workers = []
        self.current = None
        self.clock = 1000.0
        self.killed = False
        self.steps = 0
        self.max_steps = max_steps
        self.observers = []
        self.trace_files = tuple(trace_files)
        self.event_files = tuple(event_files)  # call/return/exception events only, no line yields
        self.tracer = self._make_tracer() if (trace_files or event_files) else None
        self.on_trace = None  # callable(worker, frame, event, arg) -> None
        self.forced_timeouts = []  # (worker name, clock) fired because nothing was runnable
        self.early_timeouts = True
        self.on_forced_timeout = None  # callable(worker), everyone blocked
        self.in_observer = False
        self.result = None

    # ---------------------------------------------------------------- plumbing
    def cur(self):
        try:
            return getattr(greenlet.getcurrent(), "_verif_worker", None)
        except BaseException:  # interpreter / greenlet teardown
            return None

    def now(self):
        return self.clock

    def spawn(self, fn):
        w = Worker(self, len(self.workers), fn)
        self.workers.append(w)
        return w

    def _observe(self):
        if self.in_observer:
            return
        self.in_observer = True
        try:
            for ob in self.observers:
                ob(self.current)
        finally:
            self.in_observer = False

    def yield_point(self, why=""):
        """called in a worker: a scheduling point.  The yielding worker itself takes
        the scheduling decision; if it is chosen again it simply goes on."""
        w = self.cur()
        if w is None or self.in_observer:
            return
        if self.killed:
            raise SchedKilled()
        self._observe()
        nxt = self._decide()
        if nxt is w:
            return
        target = self.hub if nxt is None else nxt.glet
        # sys.call_tracing: save / clear / restore the interpreter's "inside a trace
        # callback" flag around the switch, so the other worker is still traced
        sys.call_tracing(target.switch, ())
        if self.killed:
            raise SchedKilled()

    def _decide(self):
        """pick the next worker to run (None: run is over, self.result says why)"""
        while True:
            live = [w for w in self.workers if w.status != "done"]
            if not live:
                self.result = "done"
                return None
            options = [w.name for w in live if w.runnable()]
            if self.early_timeouts and options:
                options += [
                    "to:" + w.name
                    for w in live
                    if w.waiting is not None
                    and w.waiting["deadline"] is not None
                    and not w.waiting["notified"]
                    and not w.waiting["timedout"]
                ]
            if not options:
                # nothing runnable: fire the earliest timeout (virtual clock jumps)
                timed = [w for w in live if w.waiting is not None and w.waiting["deadline"] is not None]
                if not timed:
                    self.result = "deadlock"
                    return None
                w = min(timed, key=lambda x: (x.waiting["deadline"], x.idx))
                self.clock = max(self.clock, w.waiting["deadline"])
                w.waiting["timedout"] = True
                self.forced_timeouts.append((w.name, self.clock))
                if self.on_forced_timeout is not None:
                    self.on_forced_timeout(w)
                continue
            self.steps += 1
            if self.steps > self.max_steps:
                self.result = "steps"
                return None
            c = self.chooser.pick(sorted(options), self.current.name if self.current else None)
            if c.startswith("to:"):
                w = self.workers[int(c[4:])]
                self.clock = max(self.clock, w.waiting["deadline"])
                w.waiting["timedout"] = True
                continue
            w = self.workers[int(c[1:])]
            self.current = w
            return w

    def _make_tracer(self):
        files = self.trace_files
        efiles = self.event_files

        def elocal(frame, event, arg):
            s = self
            w = s.cur()
            if w is not None and not s.in_observer and event != "line" and s.on_trace is not None:
                s.on_trace(w, frame, event, arg)
            return elocal

        def local(frame, event, arg):
            s = self
            w = s.cur()
            if w is None or s.in_observer:
                return local
            if s.on_trace is not None:
                s.on_trace(w, frame, event, arg)
            if event == "line":
                s.yield_point("line")
            return local

        def glob(frame, event, arg):
            if event == "call":
                fn = frame.f_code.co_filename
                if files and fn.endswith(files):
                    w = self.cur()
                    if w is not None and not self.in_observer:
                        if self.on_trace is not None:
                            self.on_trace(w, frame, event, arg)
                        return local
                elif efiles and fn.endswith(efiles):
                    w = self.cur()
                    if w is not None and not self.in_observer:
                        if self.on_trace is not None:
                            self.on_trace(w, frame, event, arg)
                        frame.f_trace_lines = False
                        return elocal
            return None

        return glob

    # ---------------------------------------------------------------- main loop
    def run(self):
        """returns "done" | "deadlock" | "steps" """
        assert greenlet.getcurrent() is self.hub
        old_trace = sys.gettrace()
        if self.tracer is not None:
            sys.settrace(self.tracer)
        try:
            while True:
                nxt = self._decide()
                if nxt is None:
                    break
                # returns here when a worker ends (parent = hub) or the run is over
                nxt.glet.switch()
                if self.result in ("deadlock", "steps"):
                    break
        finally:
            sys.settrace(old_trace)
            self.current = None
            if any(w.status != "done" for w in self.workers):
                self.kill()
        return self.result

    def kill(self):
        self.killed = True
        for w in self.workers:
            if w.status != "done" and not w.glet.dead:
                try:
                    if w.glet:  # started
                        w.glet.throw(SchedKilled)
                    else:
                        w.status = "done"
                except BaseException:
                    pass
            w.status = "done"

    # ---------------------------------------------------------------- primitives
    def threading_shim(self, real=threading):
        sched = self

        class Shim:
            def __getattr__(self, k):
                return getattr(real, k)

        sh = Shim()
        sh.Lock = lambda: CoopLock(sched, reentrant=False)
        sh.RLock = lambda: CoopLock(sched, reentrant=True)
        sh.Condition = lambda lock=None: CoopCondition(sched, lock)
        sh.local = lambda: GLocal(sched)
        sh.get_ident = lambda: (sched.cur().idx + 1) if sched.cur() is not None else real.get_ident()
        return sh


class GLocal:
    """threading.local for workers: one namespace per worker (plus one for code
    running outside the scheduler)"""

    def __init__(self, sched):
        object.__setattr__(self, "_sched", sched)
        object.__setattr__(self, "_outside", {})

    def _ns(self):
        w = object.__getattribute__(self, "_sched").cur()
        if w is None:
            return object.__getattribute__(self, "_outside")
        return w.locals.setdefault(id(self), {})

    def __getattr__(self, k):
        try:
            return self._ns()[k]
        except KeyError:
            raise AttributeError(k) from None

    def __setattr__(self, k, v):
        self._ns()[k] = v

    def __delattr__(self, k):
        try:
            del self._ns()[k]
        except KeyError:
            raise AttributeError(k) from None


class CoopLock:
    def __init__(self, sched, reentrant):
        self.sched = sched
        self.reentrant = reentrant
        self.owner = None
        self.count = 0
        self.on_release = None  # callable(worker) just before the lock is given up
        self.on_acquire = None  # callable(worker) right after the lock was taken

    def acquire(self, blocking=True, timeout=-1):
        s = self.sched
        w = s.cur()
        if w is None or s.in_observer:
            # setup / teardown code running outside the scheduler
            if isinstance(self.owner, Worker) and (self.owner.status == "done" or s.killed):
                self.owner, self.count = None, 0  # left behind by a torn-down run
            if self.owner is None or (self.reentrant and self.owner == "outside"):
                self.owner = "outside"
                self.count += 1
                return True
            raise RuntimeError("lock held by a worker while used from outside the scheduler")
        if self.reentrant and self.owner is w:
            self.count += 1
            return True
        s.yield_point("acquire")
        while self.owner is not None:
            if self.owner is w and not self.reentrant:
                # self-deadlock of a plain Lock: block forever (scheduler reports deadlock)
                pass
            if not blocking:
                return False
            w.blocked_on = self
            s.yield_point("blocked")
        w.blocked_on = None
        self.owner = w
        self.count = 1
        if self.on_acquire is not None:
            self.on_acquire(w)
        return True

    def release(self):
        s = self.sched
        w = s.cur()
        if self.owner is None:
            raise RuntimeError("release unlocked lock")
        if self.owner == "outside":
            self.count -= 1
            if self.count == 0:
                self.owner = None
            return
        if self.reentrant and self.owner is not w:
            raise RuntimeError("cannot release un-acquired lock")
        self.count -= 1
        if self.count == 0:
            if self.on_release is not None:
                self.on_release(w)
            self.owner = None
            if w is not None:
                s.yield_point("release")

    def locked(self):
        return self.owner is not None

    def _is_owned(self):
        return self.owner is self.sched.cur() or (self.owner == "outside" and self.sched.cur() is None)

    __enter__ = acquire

    def __exit__(self, *a):
        self.release()


class CoopCondition:
    def __init__(self, sched, lock=None):
        self.sched = sched
        self.lock = lock if lock is not None else CoopLock(sched, reentrant=True)
        self.waiters = []
        self.acquire = self.lock.acquire
        self.release = self.lock.release

    def __enter__(self):
        return self.lock.acquire()

    def __exit__(self, *a):
        self.lock.release()

    def wait(self, timeout=None):
        s = self.sched
        w = s.cur()
        if w is None:
            raise RuntimeError("Condition.wait outside the scheduler")
        if self.lock.owner is not w:
            raise RuntimeError("cannot wait on un-acquired lock")
        saved = self.lock.count
        rec = {"cond": self, "deadline": None if timeout is None else s.clock + max(0.0, timeout), "notified": False, "timedout": False}
        self.waiters.append((w, rec))
        w.waiting = rec
        # full release (RLock._release_save)
        self.lock.count = 0
        self.lock.owner = None
        s.yield_point("wait")
        # woken: notified or timed out
        w.waiting = None
        self.waiters = [(x, r) for (x, r) in self.waiters if r is not rec]
        got = rec["notified"] and not rec["timedout"]
        while self.lock.owner is not None:
            w.blocked_on = self.lock
            s.yield_point("reacquire")
        w.blocked_on = None
        self.lock.owner = w
        self.lock.count = saved
        return got

    def wait_for(self, predicate, timeout=None):
        end = None if timeout is None else self.sched.clock + timeout
        r = predicate()
        while not r:
            if end is not None:
                left = end - self.sched.clock
                if left <= 0:
                    break
                self.wait(left)
            else:
                self.wait()
            r = predicate()
        return r

    def notify(self, n=1):
        w = self.sched.cur()
        if self.lock.owner is not w and not (w is None and self.lock.owner == "outside"):
            raise RuntimeError("cannot notify on un-acquired lock")
        k = 0
        for (x, rec) in self.waiters:
            if k >= n:
                break
            # like threading.Condition: a waiter whose timeout already expired but
            # which has not yet re-acquired the lock still consumes a notification
            if not rec["notified"]:
                rec["notified"] = True
                k += 1

    def notify_all(self):
        self.notify(len(self.waiters))

    notifyAll = notify_all
