"""Shared evaluation step of the session properties (C35, C34, C32): model verdict per
operation (correspondence) + gating of the direct oracle's verdicts.

A direct-oracle failure at operation j of a case is reported
  * under its own key "<pid>-<check>:<signature>" when the transcribed model reproduces the
    real behaviour of the whole case up to and including operation j; the keys of the genuine
    defects of the unchanged tree are enumerated one by one, each with its replay, in
    known_findings.d/<PID>.json — a key that is not listed there is a VIOLATION;
  * under "<key>@behaviour-differs-from-model" otherwise: the real code does something
    the transcription of the pinned source does not — always a VIOLATION; this includes oracle
    failures later in a history on which the real Session has already left the transcription.
The oracle only looks at the prefix of a case the model speaks about (up to the first
abstention: set-order dependent outcome or corrupted identity map).
"""
from harness import lib_uow as L


def request(eoc, ops):
    return "sess run %d %s" % (1 if eoc else 0, ",".join(L.fmt_op(o) for o in ops) or "-")


def known_keys(pid):
    import json
    import os

    fn = os.path.join(os.path.dirname(os.path.dirname(os.path.abspath(__file__))), "known_findings.d", pid.upper() + ".json")
    if not os.path.exists(fn):
        return set()
    return {e["key"] for e in json.load(open(fn))["findings"] if e.get("status") == "known"}


def evaluate(ctx, cases, label, prop, enumerated=None, never_catchall=()):
    model = ctx.driver([request(eoc, ops) for eoc, ops, _, _ in cases]) if ctx.driver_ok() else None
    corr_cases, impl_out, model_out = [], [], []
    for n, (eoc, ops, strs, fs) in enumerate(cases):
        f = fs.get(prop)
        case = {"eoc": eoc, "ops": [list(o) for o in ops]}
        ctx.case((eoc, ops), nontrivial=any(s.split("|")[5] != "-" for s in strs if s != "bad-oid"))
        ctx.count("len=%02d" % min(len(ops), 30))
        for op in ops:
            ctx.count("op=" + op[0])
        for s in strs:
            r = s.split("|", 1)[0]
            ctx.count("outcome=" + (r.split(":")[0] + ":" + r.split(":")[1] if r.startswith("err:") else "ok"))
        vouched = len(strs)
        diverge_at = None
        if model is not None:
            m = model[n].split(";") if model[n] else []
            for j, s in enumerate(strs):
                if s == "bad-oid":
                    vouched = j
                    break
                if j >= len(m) or m[j] == "abstain":
                    vouched = j
                    ctx.count("model-abstains(identity map corrupted)")
                    break
                if m[j].endswith("|nondet"):
                    vouched = j
                    ctx.count("model-abstains(set-order)")
                    break
                a = L.project(s, prop)
                b = L.project(m[j], prop)
                corr_cases.append({"eoc": eoc, "ops": case["ops"][: j + 1], "at": j})
                impl_out.append(a)
                model_out.append(b)
                if a != b:
                    diverge_at = j
                    vouched = j
                    break
        upto = vouched + (1 if diverge_at is not None else 0)
        # once the real behaviour has left the transcription (not: the model abstains) the case is a
        # failure of the correspondence anyway; an oracle failure later in such a case is the
        # concrete consequence of the divergence and is reported with the whole history up to it
        if f is not None and (f["i"] < upto or diverge_at is not None):
            key = "%s-%s:%s" % (prop, f["check"], f["sig"])
            if diverge_at is not None and f["i"] >= diverge_at:
                key += "@behaviour-differs-from-model"
            ctx.count("oracle:" + key)
            ctx.violation(key, dict(case, ops=case["ops"][: f["i"] + 1]), f["detail"])
        elif len(ops) >= 8:
            ctx.sample({"eoc": eoc, "ops": ",".join(L.fmt_op(o) for o in ops), "last": L.project(strs[-1], prop)})
    if model is not None:
        ctx.correspond("corr/%s:Session-vs-Model.Sess(%s)" % (prop, label), corr_cases, impl_out, model_out)


PROBES = [[("flush",)], [("commit",)], [("rollback",)], [("close",)], [("expunge_all",)], [("commit",), ("rollback",)],
          [("get", 1)], [("get", 2)], [("get", 3)], [("flush",), ("rollback",)], [("nbegin",), ("rollback",)],
          [("query", 0, 0)], [("query", 1, 0)], [("commit",), ("query", 0, 0)],
          [("add", 0), ("flush",)], [("add", 1), ("flush",)], [("add", 0), ("commit",)], [("add", 1), ("commit",)],
          [("add", 0), ("flush",), ("commit",), ("expunge", 0), ("add", 0)], [("delete", 0), ("flush",)], [("merge", 0), ("flush",)]]


def probe_cases(ctx):
    """the disagreeing histories: every late prefix + closing / loading operations"""
    seen, fixed = set(), []
    for d in ctx.disagreements[:25]:
        c = d["case"]
        ops = [tuple(o) for o in c["ops"]]
        for cut in range(max(1, len(ops) - 2), len(ops) + 1):
            for p in PROBES:
                cand = ops[:cut] + p
                key = (c["eoc"], tuple(cand))
                if key not in seen:
                    seen.add(key)
                    fixed.append((c["eoc"], cand))
    return fixed


def disagreement_violations(ctx, sub, prop):
    """search() found no oracle-level failure although the real Session and the transcription
    disagree in what the property speaks about: the disagreeing histories themselves are the
    failing inputs (the theorems hold for the transcription, and on this input the code is not
    the transcription). Only reached when a correspondence obligation is already broken."""
    known = known_keys(ctx.pid)
    if any(v["key"] not in known for v in sub.violations):
        return
    done = set()
    for d in ctx.disagreements:
        c = d["case"]
        key = "%s-model:%s-differs-from-transcription" % (prop, c["ops"][-1][0])
        if key in done:
            continue
        done.add(key)
        sub.violation(key, {"eoc": c["eoc"], "ops": c["ops"], "model_disagreement": True},
                      "after the last operation the real Session shows %s, the transcribed model %s" % (d["impl"], d["model"]))
        if len(done) >= 3:
            break


def replay_disagreement(ctx, obj, prop):
    from harness import lib_uow_gen as G

    c = obj["case"]
    eoc, ops, recs = G.run_fixed(c["eoc"], c["ops"])
    strs = [L.fmt_record(r) if r else "bad-oid" for r in recs]
    model = ctx.driver([request(eoc, ops)])[0].split(";")
    differs = False
    for j, (op, s_) in enumerate(zip(ops, strs)):
        m = model[j] if j < len(model) else "abstain"
        vouch = m != "abstain" and not m.endswith("|nondet") and s_ != "bad-oid"
        bad = vouch and L.project(m, prop) != L.project(s_, prop)
        print("   %-14s %s%s" % (L.fmt_op(op), L.project(s_, prop) if s_ != "bad-oid" else s_, "   <-- model: " + L.project(m, prop) if bad else ""))
        if not vouch:
            break
        if bad:
            differs = True
            break
    return differs


def replay(ctx, obj, prop, oracle):
    from harness import lib_uow_gen as G

    c = obj["case"]
    if c.get("model_disagreement"):
        return replay_disagreement(ctx, obj, prop)
    eoc, ops, recs = G.run_fixed(c["eoc"], c["ops"])
    f = oracle(eoc, ops, recs)
    print("replay %s eoc=%s ops=%s" % (prop.upper(), eoc, ",".join(L.fmt_op(o) for o in ops)))
    strs = [L.fmt_record(r) if r else "bad-oid" for r in recs]
    model = ctx.driver([request(eoc, ops)])[0].split(";") if ctx.driver_ok() else None
    differs = None
    for j, (op, s_) in enumerate(zip(ops, strs)):
        m = model[j] if model and j < len(model) else None
        mark = ""
        if m is not None and m != "abstain" and not m.endswith("|nondet") and differs is None:
            if L.project(m, prop) != L.project(s_, prop):
                differs = j
                mark = "   <-- model: " + L.project(m, prop)
        print("   %-14s %s%s" % (L.fmt_op(op), L.project(s_, prop), mark))
    print("oracle:", f["detail"] if f else None)
    want = obj["key"].split("@")[0]
    got = "%s-%s:%s" % (prop, f["check"], f["sig"]) if f else None
    if "@" in obj["key"]:
        return f is not None and (differs is not None or got == want)
    return f is not None and got == want
