"""AST scan of the compilers for call sites `f(x, a=..., **kw)` where `kw` is the enclosing function's own
**kwargs (or a dict()/copy() of it), `a` is not a named parameter of the enclosing function and is not
pop()ed / del'd from that dict: if a caller ever passes `a`, the call raises
TypeError("got multiple values for keyword argument").  Used by harness/props/c22.py: the set of such sites on
the pinned tree is the baseline (harness/c22_kw_sites.json); a NEW site makes the fuzz run with the deep budget
and is listed in the evidence."""
import ast, os, sys, json
def kw_sites(lib):
    out = []
    files = [os.path.join(lib, "sqlalchemy/sql/compiler.py")]
    for root, _, fs in os.walk(os.path.join(lib, "sqlalchemy/dialects")):
        files += [os.path.join(root, f) for f in fs if f.endswith(".py")]
    for fn in sorted(files):
        tree = ast.parse(open(fn).read())
        for f in ast.walk(tree):
            if not isinstance(f, (ast.FunctionDef, ast.AsyncFunctionDef)) or f.args.kwarg is None:
                continue
            kwname = f.args.kwarg.arg
            params = {a.arg for a in f.args.args + f.args.kwonlyargs}
            derived = {kwname}
            popped = set()
            for n in ast.walk(f):
                if isinstance(n, ast.Assign) and len(n.targets) == 1 and isinstance(n.targets[0], ast.Name):
                    v = n.value
                    if isinstance(v, ast.Call) and ((isinstance(v.func, ast.Name) and v.func.id == "dict" and v.args and isinstance(v.args[0], ast.Name) and v.args[0].id in derived)
                                                    or (isinstance(v.func, ast.Attribute) and v.func.attr == "copy" and isinstance(v.func.value, ast.Name) and v.func.value.id in derived)):
                        derived.add(n.targets[0].id)
                if isinstance(n, ast.Call) and isinstance(n.func, ast.Attribute) and n.func.attr == "pop" and isinstance(n.func.value, ast.Name) and n.args and isinstance(n.args[0], ast.Constant):
                    popped.add((n.func.value.id, n.args[0].value))
                if isinstance(n, ast.Delete):
                    for t in n.targets:
                        if isinstance(t, ast.Subscript) and isinstance(t.value, ast.Name) and isinstance(t.slice, ast.Constant):
                            popped.add((t.value.id, t.slice.value))
            for n in ast.walk(f):
                if not isinstance(n, ast.Call):
                    continue
                stars = [k.value.id for k in n.keywords if k.arg is None and isinstance(k.value, ast.Name) and k.value.id in derived]
                if not stars:
                    continue
                callee = n.func.attr if isinstance(n.func, ast.Attribute) else getattr(n.func, "id", "?")
                for k in n.keywords:
                    if k.arg is None or k.arg in params:
                        continue
                    if any((sname, k.arg) in popped or (kwname, k.arg) in popped for sname in stars):
                        continue
                    out.append("%s:%s:%s:%s" % (os.path.relpath(fn, os.path.join(lib, "sqlalchemy")), f.name, callee, k.arg))
    return sorted(set(out))
