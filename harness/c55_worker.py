"""C55 worker: execute a workload against ONE build configuration of sqlalchemy.

usage: c55_worker.py <workload.json> <out.json> <comma separated modules forced to pure-Python source>

The parent (harness/props/c55.py) runs it twice — once with all seven *_cy modules forced to
their .py source, once with only the stale ones forced (so every fresh pre-built extension is
really loaded) — and compares the canonical outputs case by case.
Each case produces {"out": canonical string, "fail": [key, detail] | None}; `fail` is the
direct oracle evaluated inside this process on this build.
"""
import json
import os
import sys
import types
import warnings

HERE = os.path.dirname(os.path.abspath(__file__))
sys.path.insert(0, os.path.dirname(HERE))
from harness import vlib  # noqa: E402


C10ENV = {}


def main():
    workload = json.load(open(sys.argv[1]))
    forced = set(x for x in sys.argv[3].split(",") if x)
    vlib.CY_MODULES = forced
    vlib.source_mode()
    import sqlalchemy  # noqa: F401
    from sqlalchemy.util import _collections_cy, _immutabledict_cy
    from sqlalchemy.engine import _processors_cy, _util_cy as e_util, _row_cy, _result_cy
    from sqlalchemy.sql import _util_cy as s_util

    mods = {
        "sqlalchemy.util._collections_cy": _collections_cy,
        "sqlalchemy.util._immutabledict_cy": _immutabledict_cy,
        "sqlalchemy.engine._processors_cy": _processors_cy,
        "sqlalchemy.engine._util_cy": e_util,
        "sqlalchemy.engine._row_cy": _row_cy,
        "sqlalchemy.engine._result_cy": _result_cy,
        "sqlalchemy.sql._util_cy": s_util,
    }
    compiled = {name: bool(m._is_compiled()) for name, m in mods.items()}
    from harness import lib_coll as L
    from harness import lib_cy as Y

    ns = types.SimpleNamespace(
        OrderedSet=_collections_cy.OrderedSet,
        IdentitySet=_collections_cy.IdentitySet,
        unique_list=_collections_cy.unique_list,
        immutabledict=_immutabledict_cy.immutabledict,
    )
    out = []
    for c in workload:
        k = c["kind"]
        try:
            if k == "oset":
                trace, req, fail = L.os_run_sequence(ns, c["nregs"], c["ops"])
                r = {"out": " ".join(trace), "req": "oset %d %s" % (c["nregs"], " ".join(req[: len(trace)])), "fail": fail[:2] if fail else None}
            elif k == "idset":
                trace, req, fail = L.is_run_sequence(ns, c["nregs"], c["ops"])
                r = {"out": " ".join(trace), "req": "idset %d %s" % (c["nregs"], " ".join(req[: len(trace)])), "fail": fail[:2] if fail else None}
            elif k == "immdict-union":
                line, req, fail = L.id_run_union(ns, c)
                r = {"out": line, "req": req, "fail": fail}
            elif k == "immdict-or":
                line, req, fail = L.id_run_or(ns, c)
                r = {"out": line, "req": req, "fail": fail}
            elif k == "immdict-immutability":
                fails = L.id_immutability_checks(ns, [tuple(p) for p in c["items"]])
                r = {"out": "ok" if not fails else "FAIL", "fail": fails[0] if fails else None}
            elif k == "unique_list":
                got, alias, ufail = L.unique_list_check(ns, c["form"], c["seq"])
                # whether the result IS the argument is part of the compared output: the two builds
                # (and the model, whose result is always a new value) must agree on it
                shown = got if isinstance(got, str) else "-@%s;%s%s" % (L.dots(got), L.dots(sorted(got)), " ALIAS" if alias else "")
                r = {"out": shown, "req": "oset 1 new:0:Z%s" % L.dots(c["seq"]), "fail": ufail}
            elif k == "c10":
                # the operation sequences, executor and line format of the result builder (C10):
                # both builds are compared with each other AND with its Lean model M-RESULT
                from harness.props import c10

                if "env" not in C10ENV:
                    C10ENV["env"] = c10.Env()
                case = c10.tuplify(c["case"])
                outs, extras = c10.run_impl(C10ENV["env"], case)
                # exactly C10's flow: its oracle is run only for UNSPEC (how far the outputs are
                # determined); its verdict / known-finding classification is C10's business
                mhz = c.get("mhz")
                if mhz is None:
                    c10.check_case(case, outs, extras)
                else:
                    c10.check_case(case, outs, extras, set(mhz))
                kk = c10.trunc_for_model(case)
                if c10.UNSPEC[0] is not None:
                    kk = min(kk, c10.UNSPEC[0])
                shown = [o for o in outs[:kk] if o is not None]
                r = {"out": ";".join(shown), "req": c10.case_line(c["cmd"], case, kk), "fail": None, "nullfix": True}
            else:
                r = Y.run_case(c, mods)
        except Exception as e:  # noqa: BLE001
            r = {"out": "WORKER-EXC %s: %s" % (type(e).__name__, e), "fail": ["c55-worker-exception-" + k, repr(e)]}
        out.append(r)
    json.dump({"compiled": compiled, "results": out}, open(sys.argv[2], "w"))


if __name__ == "__main__":
    warnings.simplefilter("ignore")
    main()
