"""Shared executor for the M-TXN properties (C23, C24, C27).

Runs an operation sequence (same token language as lean/SaVerif/Drv/Txn.lean) against
the REAL sqlalchemy Connection / Transaction / pool code on a SQLite *file* database,
with
  * an independent observer connection (plain sqlite3, autocommit) that reports what
    "every other connection" sees,
  * a thin DBAPI proxy around each sqlite3 connection that (a) numbers the raw
    connections in creation order, (b) injects one-shot faults at cursor() /
    cursor.execute() / commit() / rollback(), either an error the dialect does not
    classify as a disconnect (sqlite3.OperationalError) or one it does
    (sqlite3.ProgrammingError "Cannot operate on a closed database." after really
    closing the connection), (c) maps the pysqlite dialect's AUTOCOMMIT switch
    (isolation_level = None) onto sqlite3's `autocommit` attribute.
    Connections are opened with sqlite3 `autocommit=False` (PEP-249 transaction control,
    the mode the SQLAlchemy SQLite docs recommend for correct SAVEPOINT behaviour).
  * a logical clock substituted for `time.time` inside sqlalchemy.pool.base.

and returns one observation record per op in the driver's output format.
"""
import gc
import os
import shutil
import sqlite3
import tempfile
import warnings

_TMP = None
_DISPOSED = 0
_SERIAL = 0


def tmpdir():
    global _TMP
    if _TMP is None:
        base = "/dev/shm" if os.path.isdir("/dev/shm") else None
        _TMP = tempfile.mkdtemp(prefix="verif-txn-", dir=base)
        import atexit

        atexit.register(lambda: shutil.rmtree(_TMP, ignore_errors=True))
    return _TMP


class FaultPlan:
    def __init__(self):
        self.armed = []  # list of (point, kind)

    def take(self, point):
        for i, (p, k) in enumerate(self.armed):
            if p == point:
                del self.armed[i]
                return k
        return None


class ProxyCursor:
    def __init__(self, proxy, cur):
        self._proxy = proxy
        self._cur = cur

    def execute(self, *a, **kw):
        self._proxy._fault("x")
        return self._cur.execute(*a, **kw)

    def executemany(self, *a, **kw):
        self._proxy._fault("x")
        return self._cur.executemany(*a, **kw)

    def __getattr__(self, k):
        return getattr(self._cur, k)

    def __iter__(self):
        return iter(self._cur)


class ProxyConnection:
    """PEP-249 connection wrapping sqlite3.Connection"""

    def __init__(self, raw, rid, plan):
        self.__dict__["_raw"] = raw
        self.__dict__["rid"] = rid
        self.__dict__["_plan"] = plan
        self.__dict__["dead"] = False

    def _fault(self, point):
        k = self._plan.take(point)
        if k is None:
            return
        if k == "d":
            self.__dict__["dead"] = True
            self._raw.close()
            raise sqlite3.ProgrammingError("Cannot operate on a closed database.")
        if k == "k":
            raise KeyboardInterrupt("injected BaseException")
        raise sqlite3.OperationalError("injected fault: database is locked")

    def cursor(self, *a, **kw):
        self._fault("u")
        return ProxyCursor(self, self._raw.cursor(*a, **kw))

    # Driver-level autocommit is sqlite3's `autocommit=True` attribute here; the pysqlite
    # dialect's AUTOCOMMIT is the legacy `isolation_level = None` mode, in which commit() /
    # rollback() still end a transaction that SQL (a SAVEPOINT) has opened - emulated.
    def commit(self):
        self._fault("c")
        if self._raw.autocommit is True:
            if self._raw.in_transaction:
                self._raw.execute("COMMIT")
            return None
        return self._raw.commit()

    def rollback(self):
        self._fault("r")
        if self._raw.autocommit is True:
            if self._raw.in_transaction:
                self._raw.execute("ROLLBACK")
            return None
        return self._raw.rollback()

    def close(self):
        self.__dict__["dead"] = True
        return self._raw.close()

    # the pysqlite dialect switches AUTOCOMMIT with `isolation_level = None`
    @property
    def isolation_level(self):
        return None if self._raw.autocommit is True else ""

    @isolation_level.setter
    def isolation_level(self, v):
        if v is None:
            self._raw.autocommit = True
        else:
            self._raw.autocommit = False

    def __getattr__(self, k):
        return getattr(self._raw, k)

    def __setattr__(self, k, v):
        if k == "isolation_level":
            type(self).isolation_level.fset(self, v)
        else:
            setattr(self._raw, k, v)


class LogicalClock:
    def __init__(self):
        self.t = 0

    def time(self):
        self.t += 1
        return float(self.t)


class World:
    """one engine + file DB + observer; executes op tokens"""

    def __init__(self, reset="rollback", tag="w", poolclass="QueuePool", listener="none", engine_opts="none",
                 recycle=None, pre_ping=False, skip_ac=False):
        import sqlalchemy as sa
        from sqlalchemy import pool as sapool
        import sqlalchemy.pool.base as pbase

        self.sa = sa
        import logging

        logging.getLogger("sqlalchemy.pool").setLevel(logging.CRITICAL)
        global _SERIAL
        _SERIAL += 1
        self.path = os.path.join(tmpdir(), "%s-%d-%d.db" % (tag, os.getpid(), _SERIAL))
        for ext in ("", "-journal", "-wal", "-shm"):
            if os.path.exists(self.path + ext):
                os.remove(self.path + ext)
        setup = sqlite3.connect(self.path)
        setup.execute("create table t (id integer primary key)")
        setup.commit()
        setup.close()
        self.obs = sqlite3.connect(self.path, isolation_level=None, timeout=0)
        self.plan = FaultPlan()
        self.nrid = 0
        self.clock = LogicalClock()
        self._pbase = pbase
        self._saved_time = pbase.time
        pbase.time = self.clock

        def creator():
            k = self.plan.take("n")
            if k == "d":
                raise sqlite3.ProgrammingError("Cannot operate on a closed database.")
            if k == "e":
                raise sqlite3.OperationalError("injected fault: unable to open database file")
            raw = sqlite3.connect(self.path, autocommit=False, timeout=0, check_same_thread=False)
            p = ProxyConnection(raw, self.nrid, self.plan)
            self.nrid += 1
            return p

        ror = {"rollback": "rollback", "commit": "commit", "none": None}[reset]
        self.poolclass = poolclass
        kw = {"pool_size": 5, "max_overflow": 5} if poolclass == "QueuePool" else {}
        if recycle is not None:
            kw["pool_recycle"] = recycle
        if pre_ping:
            kw["pool_pre_ping"] = True
        self.skip_ac = skip_ac
        if skip_ac:
            # the dialect skips dbapi_connection.rollback() when the DBAPI connection itself
            # reports driver-level autocommit (pysqlite: isolation_level is None)
            kw["skip_autocommit_rollback"] = True
        self.engine = sa.create_engine(
            "sqlite://",
            creator=creator,
            poolclass=getattr(sapool, poolclass),
            pool_reset_on_return=ror,
            **kw,
        )
        self.engine_opts = engine_opts
        if engine_opts == "token":
            self.engine = self.engine.execution_options(logging_token="eng")
        elif engine_opts == "auto":
            self.engine = self.engine.execution_options(isolation_level="AUTOCOMMIT")
        elif engine_opts == "token+auto":
            self.engine = self.engine.execution_options(logging_token="eng").execution_options(isolation_level="AUTOCOMMIT")
        self.listener = listener
        if listener != "none":
            # handle_error listeners: "passive" changes nothing, "force" classifies every
            # DBAPI error as a disconnect, "nopool" keeps the pool generation on a disconnect
            def on_error(ectx):
                if listener == "force" and isinstance(ectx.original_exception, sqlite3.Error):
                    ectx.is_disconnect = True
                elif listener == "nopool":
                    ectx.invalidate_pool_on_disconnect = False

            sa.event.listen(self.engine, "handle_error", on_error)
        md = sa.MetaData()
        self.table = sa.Table("t", md, sa.Column("id", sa.Integer, primary_key=True))
        # dialect first-connect initialisation must not be numbered / clocked: do it on a
        # throw-away connection, then start the world from a pristine pool
        c = self.engine.connect()
        c.close()
        self.engine.dispose()
        self.nrid = 0
        self.clock.t = 0
        self.engine.pool._invalidate_time = 0
        self.conn = None
        self.handles = []
        self.warns = 0
        self.gone = False
        self.connect()

    def dispose(self):
        global _DISPOSED
        try:
            c, self.conn = self.conn, None
            self.handles = []
            if c is not None:
                try:
                    self.plan.armed.clear()
                    c.close()
                except Exception:  # noqa: BLE001
                    pass
            c = None
            self.engine.dispose()
            self.obs.close()
            _DISPOSED += 1
            if _DISPOSED % 200 == 0:
                gc.collect()
        finally:
            self._pbase.time = self._saved_time
            for ext in ("", "-journal"):
                try:
                    os.remove(self.path + ext)
                except OSError:
                    pass

    def _collect(self):
        """garbage-collect the dropped Connection (cheap young-generation pass first)"""
        gc.collect(1)
        try:
            pending = self.engine.pool.checkedout() > 0
        except Exception:  # noqa: BLE001  (pool classes without a counter)
            pending = True
        if pending:
            gc.collect()

    # ------------------------------------------------------------------ ops
    def connect(self):
        self.conn = self.engine.connect()
        self.handles = []
        self.warns = 0
        self.gone = False

    def committed(self):
        """rows an independent connection sees; 'LOCKED' when some pooled connection holds
        a lock that keeps even readers out (never the case on the unchanged tree)"""
        try:
            return [r[0] for r in self.obs.execute("select id from t order by id").fetchall()]
        except sqlite3.OperationalError:
            return ["LOCKED"]

    def _classify(self, e):
        exc = self.sa.exc
        if isinstance(e, exc.PendingRollbackError):
            return "PRE"
        if isinstance(e, exc.ResourceClosedError):
            return "RCE"
        if isinstance(e, exc.DBAPIError):
            if e.connection_invalidated:
                return "DISC"
            if isinstance(e, exc.IntegrityError):
                return "IE"
            # any other DBAPI error that is not flagged `connection_invalidated` (the injected
            # OperationalError; or the "closed database" ProgrammingError when it was raised by
            # the handler's own autorollback and re-raised by the re-entrant handler call)
            return "OE"
        if type(e) is exc.InvalidRequestError:
            return "IRE"
        return "EXC:" + type(e).__name__

    def _stmt(self, tok):
        sa = self.sa
        k = int(tok[1:]) if len(tok) > 1 else 0
        c = self.conn
        if tok[0] == "i":
            if k % 3 == 0:
                return c.execute(sa.text("insert into t (id) values (:k)"), {"k": k})
            if k % 3 == 1:
                return c.execute(self.table.insert(), {"id": k})
            return c.exec_driver_sql("insert into t (id) values (?)", (k,))
        if tok[0] == "d":
            if k % 2 == 0:
                return c.execute(self.table.delete().where(self.table.c.id == k))
            return c.exec_driver_sql("delete from t where id = ?", (k,))
        if tok[0] == "q":
            return sorted(r[0] for r in c.execute(sa.text("select id from t")).fetchall())
        raise ValueError(tok)

    def do(self, tok):
        """execute one op token; returns (res, sel_rows_or_None)"""
        c = self.conn
        h = lambda: self.handles[int(tok[1:])]  # noqa: E731
        sel = None
        try:
            t0 = tok[0]
            if tok == "b":
                c.begin()
            elif tok == "n":
                c.begin_nested()
            elif tok == "C":
                c.commit()
            elif tok == "R":
                c.rollback()
            elif tok == "X":
                c.close()
            elif tok == "I":
                c.invalidate()
            elif tok == "N":
                self.conn = None
                self.handles = []
                c = None
                self._collect()
                self.connect()
            elif tok == "G":
                self.conn = None
                self.handles = []
                c = None
                self._collect()
                self.gone = True
            elif tok == "A":
                c.execution_options(isolation_level="AUTOCOMMIT")
            elif tok == "U":
                c.execution_options(isolation_level="READ UNCOMMITTED")
            elif tok == "L":
                c.execution_options(logging_token="conn")
            elif tok == "O":
                c.execution_options(stream_results=True)
            elif tok == "LA":
                c.execution_options(logging_token="conn", isolation_level="AUTOCOMMIT")
            elif t0 == "F":
                self.plan.armed.append((tok[1], tok[2]))
            elif tok == "D":
                self.plan.armed.clear()
            elif t0 == "W":
                extra = [self.engine.connect() for _ in range(int(tok[1:]))]
                for x in extra:
                    x.close()
            elif t0 in "idq":
                r = self._stmt(tok)
                if t0 == "q":
                    sel = r
            elif t0 == "c":
                h().commit()
            elif t0 == "r":
                h().rollback()
            elif t0 == "x":
                h().close()
            elif t0 == "e":
                h().__enter__()
            elif t0 == "o":
                h().__exit__(None, None, None)
            elif t0 == "f":
                err = ValueError("user error inside with-block")
                h().__exit__(ValueError, err, None)
            else:
                raise ValueError("bad op " + tok)
            return "ok", sel
        except KeyboardInterrupt as e:
            if "injected" not in str(e):
                raise
            return "KBI", None
        except Exception as e:  # noqa: BLE001
            if isinstance(e, ValueError) and str(e).startswith("bad op"):
                raise
            return self._classify(e), None

    # ------------------------------------------------------------------ observation
    def _register_handles(self):
        c = self.conn
        if c is None:
            return
        # creation order: a root (explicit or autobegun) precedes the savepoint created
        # by the same call
        for t in (c._transaction, c._nested_transaction):
            if t is not None and not any(t is x for x in self.handles):
                self.handles.append(t)

    def _idx(self, t):
        if t is None:
            return "N"
        for i, x in enumerate(self.handles):
            if x is t:
                return str(i)
        return "?"

    def record(self, res, sel):
        fl = lambda l: ",".join(str(x) for x in l) if l else "-"  # noqa: E731
        b = lambda v: "1" if v else "0"  # noqa: E731
        c = self.conn
        if self.poolclass == "QueuePool":
            for _attempt in range(5):
                try:
                    q = list(self.engine.pool._pool.queue)
                    break
                except RuntimeError:  # a finalizer returned a connection while we were looking
                    q = []
            idle = ",".join("N" if r.dbapi_connection is None else str(r.dbapi_connection.rid) for r in q) or "-"
        else:
            idle = "?"
        head = res + (":" + fl(sel) if sel is not None else "")
        if self.gone or c is None:
            return "/".join([head, "0010", "N", "N", "N", "-", fl(self.committed()), "x", "x", idle, str(self.warns)])
        fairy = c._dbapi_connection
        if fairy is not None and fairy.dbapi_connection is not None:
            p = fairy.dbapi_connection
            try:
                working = fl(sorted(r[0] for r in p._raw.execute("select id from t").fetchall()))
            except sqlite3.ProgrammingError:
                working = "DEAD"
            except sqlite3.Error:
                working = "LOCKED"
            rid = str(p.rid)
            try:
                if p._raw.autocommit is True:
                    rid += "a"
                    if p._raw.in_transaction:
                        rid += "t"  # a transaction opened by SQL (SAVEPOINT) in autocommit mode
                if p._raw.execute("PRAGMA read_uncommitted").fetchone()[0]:
                    rid += "u"
            except sqlite3.Error:
                rid += "!"  # the DBAPI connection is closed underneath a Connection that still holds it
        else:
            working = rid = "x"
        return "/".join(
            [
                head,
                b(c.in_transaction()) + b(c.in_nested_transaction()) + b(c.closed) + b(c.invalidated),
                self._idx(c.get_transaction()),
                self._idx(c.get_nested_transaction()),
                self._idx(c._trans_context_manager),
                "".join(b(t.is_active) for t in self.handles) or "-",
                fl(self.committed()),
                working,
                rid,
                idle,
                str(self.warns),
            ]
        )

    def step(self, tok):
        with warnings.catch_warnings(record=True) as w:
            warnings.simplefilter("always")
            res, sel = self.do(tok)
            self._register_handles()
        self.warns += sum(1 for x in w if issubclass(x.category, self.sa.exc.SAWarning))
        try:
            return self.record(res, sel)
        except Exception as e:  # noqa: BLE001  an unobservable state is a deviation, not a crash
            return "OBSERVE-ERROR:%s/0000/N/N/N/-/-/x/x/-/0" % type(e).__name__


def run_ops(ops, reset="rollback", tag="w", poolclass="QueuePool", listener="none", engine_opts="none",
            recycle=None, pre_ping=False, skip_ac=False):
    """-> list of observation records (strings), one per op"""
    w = World(reset, tag, poolclass, listener, engine_opts, recycle, pre_ping, skip_ac)
    try:
        return [w.step(t) for t in ops]
    finally:
        w.dispose()


FIELDS = ["res", "flags", "transaction", "nested", "ctx", "actives", "committed", "working", "rid", "idle", "warns"]


def parse_record(rec):
    return dict(zip(FIELDS, rec.split("/")))


def driver_line(ops, reset="rollback", listener="none", engine_opts="none", recycle=None, skip_ac=False):
    if skip_ac:
        assert recycle is None and listener in ("none", "passive")
        return "txn runs %s %s %s" % (reset, engine_opts, ";".join(ops) if ops else "-")
    if recycle is not None:
        assert engine_opts == "none"
        lis = "none" if listener == "passive" else listener
        return "txn runc %s %s %d %s" % (reset, lis, recycle, ";".join(ops) if ops else "-")
    if engine_opts != "none":
        assert listener in ("none", "passive")
        return "txn rune %s %s %s" % (reset, engine_opts, ";".join(ops) if ops else "-")
    if listener in ("none", "passive"):
        return "txn run %s %s" % (reset, ";".join(ops) if ops else "-")
    return "txn runl %s %s %s" % (reset, listener, ";".join(ops) if ops else "-")
