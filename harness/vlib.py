"""Common machinery for every property check (see DESIGN.md §0.3).

A property module ``harness/props/cXX.py`` defines

    PID        = "C19"
    LEVEL      = "proof"                       # evidence level
    LEAN       = ["SaVerif.Props.C19"]         # modules holding property theorems
    def gen(ctx): ...                          # optional translator -> ctx.write_gen(...)
    def run(ctx): ...                          # correspondence + direct oracle
    def search(ctx, broken): ...               # optional deeper failing-input search
    def replay(ctx, obj): ...                  # re-execute a replay file -> bool (still fails)

and this library supplies ``Ctx`` with the proof step (lake build + axiom audit),
the batch driver call, disagreement bookkeeping, known-findings handling,
evidence writing and the exit protocol.
"""
from __future__ import annotations

import fcntl
import hashlib
import json
import os
import random
import re
import subprocess
import sys
import time
import traceback

VERIF = os.path.dirname(os.path.dirname(os.path.abspath(__file__)))
REPO = os.environ.get("VERIF_REPO", "/repo")
LEAN_DIR = os.path.join(VERIF, "lean")
DRIVER = os.path.join(LEAN_DIR, ".lake", "build", "bin", "driver")
ALLOWED_AXIOMS = {"propext", "Classical.choice", "Quot.sound"}
FORBIDDEN = re.compile(
    r"\b(sorry|admit|native_decide|bv_decide|implemented_by|unsafe)\b|^\s*axiom\s|maxHeartbeats\s+0\b",
    re.M,
)

CY_MODULES = {
    "sqlalchemy.util._collections_cy",
    "sqlalchemy.util._immutabledict_cy",
    "sqlalchemy.engine._processors_cy",
    "sqlalchemy.engine._result_cy",
    "sqlalchemy.engine._row_cy",
    "sqlalchemy.engine._util_cy",
    "sqlalchemy.sql._util_cy",
}


def source_mode():
    """Force the pure-Python source of the seven ``*_cy.py`` modules.

    The pre-built ``.so`` files are untracked and cannot be rebuilt (no Cython),
    so an edit to ``*_cy.py`` would otherwise be invisible.  Must run before the
    first ``import sqlalchemy``.  Also puts REPO/lib first on sys.path.
    """
    import importlib.abc
    import importlib.util

    lib = os.path.join(REPO, "lib")
    if lib not in sys.path:
        sys.path.insert(0, lib)
    if any(getattr(f, "_verif_srcmode", False) for f in sys.meta_path):
        return
    assert "sqlalchemy" not in sys.modules, "source_mode() must precede import sqlalchemy"

    class Finder(importlib.abc.MetaPathFinder):
        _verif_srcmode = True

        def find_spec(self, fullname, path, target=None):
            if fullname in CY_MODULES:
                fn = os.path.join(lib, *fullname.split(".")) + ".py"
                if os.path.exists(fn):
                    return importlib.util.spec_from_file_location(fullname, fn)
            return None

    sys.meta_path.insert(0, Finder())


class _Lock:
    def __init__(self, path):
        self.path = path

    def __enter__(self):
        os.makedirs(os.path.dirname(self.path), exist_ok=True)
        self.f = open(self.path, "w")
        fcntl.flock(self.f, fcntl.LOCK_EX)

    def __exit__(self, *a):
        fcntl.flock(self.f, fcntl.LOCK_UN)
        self.f.close()


def lake_lock():
    return _Lock(os.path.join(LEAN_DIR, ".lake", "verif.lock"))


def enc_str(s: str) -> str:
    """string -> driver token (see lean/SaVerif/Drv/Parse.lean parseStr?)"""
    return "s:" + ".".join(str(ord(c)) for c in s)


def dec_str(tok: str) -> str:
    assert tok.startswith("s:")
    body = tok[2:]
    return "" if not body else "".join(chr(int(x)) for x in body.split("."))


def sh(cmd, cwd=None, timeout=3600, inp=None):
    p = subprocess.run(
        cmd, cwd=cwd, input=inp, capture_output=True, text=True, timeout=timeout
    )
    return p.returncode, p.stdout + p.stderr


def strip_lean_comments(src: str) -> str:
    # block comments (nested not handled: models do not nest them) then line comments
    src = re.sub(r"/-.*?-/", "", src, flags=re.S)
    src = re.sub(r"--.*", "", src)
    return src


def lean_imports(module: str, seen=None):
    """Transitive SaVerif.* imports of a module (file paths)."""
    seen = seen if seen is not None else {}
    if module in seen:
        return seen
    fn = os.path.join(LEAN_DIR, *module.split(".")) + ".lean"
    if not os.path.exists(fn):
        return seen
    seen[module] = fn
    for m in re.findall(r"^import\s+(SaVerif\.\S+)", open(fn).read(), flags=re.M):
        lean_imports(m, seen)
    return seen


def theorems_of(module: str):
    """Fully qualified names of the theorems declared in a Props module."""
    fn = os.path.join(LEAN_DIR, *module.split(".")) + ".lean"
    src = strip_lean_comments(open(fn).read())
    out, ns = [], []
    for line in src.splitlines():
        m = re.match(r"\s*namespace\s+(\S+)", line)
        if m:
            ns.append(m.group(1))
            continue
        m = re.match(r"\s*end\s+(\S+)", line)
        if m and ns and ns[-1].split(".")[-1] == m.group(1).split(".")[-1]:
            ns.pop()
            continue
        m = re.match(r"\s*(?:@\[[^\]]*\]\s*)?(?:private\s+|protected\s+)?theorem\s+(\S+)", line)
        if m:
            out.append(".".join(ns + [m.group(1)]))
    return out


class Ctx:
    def __init__(self, pid, tier, seed, level="proof"):
        self.pid = pid
        self.tier = tier
        self.seed = seed
        self.level = level
        self.rng = random.Random(f"{pid}:{seed}")
        self.t0 = time.time()
        self.obligations = []  # (name, ok, detail)
        self.broken = []  # textual description of broken proof / correspondence
        self.disagreements = []  # dicts
        self.violations = []  # dicts: {"key":..., "case":..., "detail":...}
        self.known_hits = []
        self.samples = []
        self.stats = {}  # distribution counters
        self.evaluations = 0
        self.nontrivial = set()
        self.programs = 0
        self.assumptions = []
        self.trusted = [
            "Lean 4.33.0 kernel; axioms allowed: propext, Classical.choice, Quot.sound",
            "harness/vlib.py + harness/props/%s.py (translator / correspondence check)" % pid.lower(),
            "pure-Python source mode for the seven *_cy.py modules (pre-built .so not examined)",
        ]
        self.rule = ""
        self.exhaustive = False
        self.explanation = ""
        self.checker_cmds = []
        self.axioms = {}
        self.gen_changed = []

    # ------------------------------------------------------------------ translator
    def write_gen(self, name: str, content: str):
        """Write lean/SaVerif/Gen/<name>.lean (only if its content changed, so an
        unchanged table costs no rebuild).  The committed copy is the table of the
        unchanged tree; evidence records which tables differ from the previous run."""
        fn = os.path.join(LEAN_DIR, "SaVerif", "Gen", name + ".lean")
        header = "-- GENERATED by the translator (gen) of a harness/props module from the repository working tree — do not edit\n"
        content = header + content
        with lake_lock():
            old = open(fn).read() if os.path.exists(fn) else None
            if old != content:
                self.gen_changed.append(name)
                os.makedirs(os.path.dirname(fn), exist_ok=True)
                with open(fn, "w") as f:
                    f.write(content)

    def obligation(self, name, ok, detail=""):
        """Extra proof-side obligation decided outside lake build (rare)."""
        self.obligations.append((name, bool(ok), detail))
        if not ok:
            self.broken.append({"kind": "obligation", "what": name, "detail": detail})

    # ------------------------------------------------------------------ proof step
    def prove(self, modules, extra_targets=("driver",)):
        """lake build the property modules (+driver) and audit axioms.

        Every theorem of every Props module is one obligation.  A failed build
        marks all theorems of the failing module as not discharged.
        """
        targets = list(modules) + list(extra_targets)
        cmd = ["lake", "build"] + targets
        self.checker_cmds.append("cd lean && " + " ".join(cmd))
        with lake_lock():
            rc, out = sh(cmd, cwd=LEAN_DIR, timeout=3000)
        build_ok = rc == 0
        if not build_ok:
            errs = [l for l in out.splitlines() if "error" in l.lower()][:20]
            self.broken.append(
                {"kind": "proof", "what": "lake build " + " ".join(modules), "detail": "\n".join(errs) or out[-2000:]}
            )
        # forbidden tokens in every transitive source
        files = {}
        for m in modules:
            lean_imports(m, files)
        for m, fn in files.items():
            hit = FORBIDDEN.search(strip_lean_comments(open(fn).read()))
            if hit:
                self.broken.append({"kind": "audit", "what": m, "detail": "forbidden token %r" % hit.group(0)})
        thms = []
        for m in modules:
            thms += [(m, t) for t in theorems_of(m)]
        axioms = {}
        if build_ok and thms:
            os.makedirs(os.path.join(LEAN_DIR, ".lake", "audit"), exist_ok=True)
            afn = os.path.join(LEAN_DIR, ".lake", "audit", self.pid + ".lean")
            with open(afn, "w") as f:
                for m in modules:
                    f.write("import %s\n" % m)
                for _, t in thms:
                    f.write("#print axioms %s\n" % t)
            cmd2 = ["lake", "env", "lean", afn]
            self.checker_cmds.append("cd lean && lake env lean .lake/audit/%s.lean  # #print axioms" % self.pid)
            with lake_lock():  # never read .olean files while another check's lake build rewrites them
                rc2, out2 = sh(cmd2, cwd=LEAN_DIR, timeout=600)
            for mm in re.finditer(r"'([^']+)' depends on axioms: \[([^\]]*)\]", out2.replace("\n", " ")):
                axioms[mm.group(1)] = [a.strip() for a in mm.group(2).split(",") if a.strip()]
            for mm in re.finditer(r"'([^']+)' does not depend on any axioms", out2):
                axioms[mm.group(1)] = []
            if rc2 != 0:
                self.broken.append({"kind": "audit", "what": "#print axioms", "detail": out2[-1500:]})
            # a theorem the audit did not report (truncated / interleaved output):
            # ask again, one theorem per file, before giving up on it
            missing = [t for _, t in thms if t not in axioms]
            for t in missing[:80]:
                afn1 = os.path.join(LEAN_DIR, ".lake", "audit", "%s_%s.lean" % (self.pid, hashlib.md5(t.encode()).hexdigest()[:8]))
                with open(afn1, "w") as f:
                    for m in modules:
                        f.write("import %s\n" % m)
                    f.write("#print axioms %s\n" % t)
                with lake_lock():
                    rc3, out3 = sh(["lake", "env", "lean", afn1], cwd=LEAN_DIR, timeout=600)
                o3 = out3.replace("\n", " ")
                mm = re.search(r"'([^']+)' depends on axioms: \[([^\]]*)\]", o3)
                if mm:
                    axioms[t] = [a.strip() for a in mm.group(2).split(",") if a.strip()]
                elif "does not depend on any axioms" in o3:
                    axioms[t] = []
                else:
                    self.broken.append({"kind": "audit", "what": t, "detail": "axiom audit gave no answer: " + out3[-400:]})
                try:
                    os.remove(afn1)
                except OSError:
                    pass
        for m, t in thms:
            ok = build_ok and t in axioms and set(axioms[t]) <= ALLOWED_AXIOMS
            detail = "axioms=%s" % axioms.get(t) if t in axioms else "not checked"
            self.obligations.append((t, ok, detail))
            if build_ok and t in axioms and not set(axioms[t]) <= ALLOWED_AXIOMS:
                self.broken.append({"kind": "audit", "what": t, "detail": "axioms %s" % axioms[t]})
        self.axioms.update(axioms)
        if self.tier == "thorough" and build_ok and os.environ.get("VERIF_LEANCHECKER", "1") == "1":
            cmd3 = ["lake", "env", "leanchecker"] + list(modules)
            try:
                rc3, out3 = sh(cmd3, cwd=LEAN_DIR, timeout=1500)
                self.checker_cmds.append("cd lean && " + " ".join(cmd3))
                self.obligations.append(("leanchecker " + " ".join(modules), rc3 == 0, out3[-300:]))
                if rc3 != 0:
                    self.broken.append({"kind": "proof", "what": "leanchecker", "detail": out3[-1500:]})
            except subprocess.TimeoutExpired:
                self.assumptions.append("leanchecker timed out; kernel check by lake build only")
        return build_ok

    def driver_ok(self):
        return os.path.exists(DRIVER)

    # ------------------------------------------------------------------ model driver
    def driver(self, lines):
        """Run the Lean model on request lines; returns response lines."""
        if not lines:
            return []
        for l in lines:
            assert "\n" not in l
        rc, out = sh([DRIVER], inp="\n".join(lines) + "\n", timeout=3000)
        res = out.split("\n")
        if res and res[-1] == "":
            res.pop()
        if rc != 0 or len(res) != len(lines):
            raise RuntimeError("driver failed rc=%s got %d lines for %d requests: %s" % (rc, len(res), len(lines), out[-500:]))
        return res

    # ------------------------------------------------------------------ bookkeeping
    def count(self, key, n=1):
        self.stats[key] = self.stats.get(key, 0) + n

    def case(self, sig, nontrivial=True):
        """Register one explored case; `sig` identifies it for distinctness."""
        self.evaluations += 1
        if nontrivial:
            if not isinstance(sig, str):
                sig = json.dumps(sig, sort_keys=True, default=str)
            self.nontrivial.add(hashlib.md5(sig.encode()).digest()[:8])

    def sample(self, obj, cap=6):
        if len(self.samples) < cap:
            self.samples.append(obj)

    def correspond(self, name, cases, impl_out, model_out):
        """Compare canonical implementation output with model output per case."""
        assert len(cases) == len(impl_out) == len(model_out)
        self.programs += len(cases)
        bad = 0
        for c, a, b in zip(cases, impl_out, model_out):
            if a != b:
                bad += 1
                if len(self.disagreements) < 50:
                    self.disagreements.append({"corr": name, "case": c, "impl": a, "model": b})
        if bad:
            self.broken.append(
                {"kind": "correspondence", "what": name, "detail": "%d of %d cases disagree; first: %s" % (bad, len(cases), json.dumps(self.disagreements[0], default=str)[:600])}
            )
        return bad

    def violation(self, key, case, detail):
        """The direct oracle found the property false on the real code."""
        self.violations.append({"key": key, "case": case, "detail": detail})

    # ------------------------------------------------------------------ finish
    def known_findings(self):
        """Entries for this property from known_findings.json (the committed,
        assembled file) and from the fragments in known_findings.d/ (same
        content; read too so a fragment works before the file is reassembled).
        Read-only: nothing is ever added at check time."""
        out, seen = [], set()
        files = [os.path.join(VERIF, "known_findings.json")]
        d = os.path.join(VERIF, "known_findings.d")
        if os.path.isdir(d):
            files += [os.path.join(d, f) for f in sorted(os.listdir(d)) if f.endswith(".json")]
        for fn in files:
            if not os.path.exists(fn):
                continue
            for e in json.load(open(fn)).get("findings", []):
                k = (e.get("property"), e.get("key"), e.get("status"))
                if e.get("property") == self.pid and k not in seen:
                    seen.add(k)
                    out.append(e)
        return out

    def finish(self, module=None):
        known = {e["key"]: e for e in self.known_findings() if e.get("status") == "known"}
        reported = []
        seen_known = {}
        for v in self.violations:
            if v["key"] in known:
                seen_known.setdefault(v["key"], v)
            else:
                reported.append(v)
        # broken proof / correspondence and nothing concrete yet: deeper search
        if self.broken and not reported and module is not None and hasattr(module, "search"):
            try:
                before = len(self.violations)
                module.search(self, self.broken)
                for v in self.violations[before:]:
                    if v["key"] in known:
                        seen_known.setdefault(v["key"], v)
                    else:
                        reported.append(v)
            except Exception:
                self.broken.append({"kind": "search", "what": "search crashed", "detail": traceback.format_exc()[-1500:]})
        lines = []
        os.makedirs(os.path.join(VERIF, "replays"), exist_ok=True)
        for k, v in seen_known.items():
            lines.append("KNOWN-FINDING: property=%s %s — %s" % (self.pid, k, known[k].get("what", "")))
        rc = 0
        if reported:
            # one VIOLATION line per distinct key
            done = set()
            for v in reported:
                if v["key"] in done:
                    continue
                done.add(v["key"])
                path = self._write_replay(v, found=True)
                lines.append("VIOLATION property=%s replay=%s" % (self.pid, path))
            rc = 1
        elif self.broken:
            path = self._write_replay(
                {"key": "broken-obligation", "case": None, "detail": self.broken}, found=False
            )
            lines.append("VIOLATION property=%s replay=%s no-failing-input-found" % (self.pid, path))
            rc = 1
        self._write_evidence(len(reported) + (1 if (self.broken and not reported) else 0), list(seen_known))
        for l in lines:
            print(l)
        sys.stdout.flush()
        return rc

    def _write_replay(self, v, found):
        body = {
            "property": self.pid,
            "failing_input_found": found,
            "key": v["key"],
            "case": v["case"],
            "detail": v["detail"],
            "broken_obligations": self.broken,
            "seed": self.seed,
            "tier": self.tier,
            "replay_cmd": "./check %s --replay <this file>" % self.pid,
        }
        s = json.dumps(body, indent=1, sort_keys=True, default=str)
        h = hashlib.md5(s.encode()).hexdigest()[:10]
        path = os.path.join(VERIF, "replays", "%s-%s.json" % (self.pid, h))
        with open(path, "w") as f:
            f.write(s)
        return os.path.relpath(path, VERIF)

    def _write_evidence(self, nviol, known_keys):
        n_obl = len(self.obligations)
        n_dis = sum(1 for o in self.obligations if o[1])
        cov = {
            "evaluations": self.evaluations,
            "distinct_nontrivial": len(self.nontrivial),
            "rule": self.rule,
            "samples": self.samples or ["(no samples recorded)"],
            "obligations": n_obl,
            "discharged": n_dis,
            "checker_cmd": " && ".join(self.checker_cmds) or "(none)",
            "trusted_base": self.trusted,
            "programs": self.programs,
            "disagreements_checked": len(self.disagreements),
            "explanation": self.explanation,
            "exhaustive": self.exhaustive,
            "theorems": [{"name": o[0], "discharged": o[1], "detail": o[2]} for o in self.obligations],
            "input_distribution": dict(sorted(self.stats.items())),
            "broken": self.broken,
            "gen_tables_rewritten_this_run": self.gen_changed,
            "known_findings_reproduced": known_keys,
        }
        # a level's own keys are only meaningful when measured > 0; otherwise leave
        # them out so that the schema's generic (evaluations/distinct) rule applies
        if cov["programs"] == 0:
            cov.pop("programs"); cov.pop("disagreements_checked")
        if cov["obligations"] == 0:
            cov.pop("obligations"); cov.pop("discharged")
        ev = {
            "property_id": self.pid,
            "tier": self.tier,
            "seed": self.seed,
            "level": self.level,
            "coverage": cov,
            "assumptions": self.assumptions,
            "wall_s": round(time.time() - self.t0, 2),
            "violations": nviol,
        }
        os.makedirs(os.path.join(VERIF, "evidence"), exist_ok=True)
        with open(os.path.join(VERIF, "evidence", self.pid + ".json"), "w") as f:
            json.dump(ev, f, indent=1, sort_keys=True, default=str)
            f.write("\n")
