"""Workloads, canonicalisation and reference oracles for the dual-implemented (Cython / pure
Python) modules other than the utility collections: engine/_processors_cy, engine/_util_cy,
sql/_util_cy, engine/_row_cy, engine/_result_cy.  Runs inside harness/c55_worker.py (one
process per build configuration); generators are used by harness/props/c55.py.
"""
import collections.abc
import datetime
import decimal
import operator
import pickle
import warnings


def make_iterable(form, seq):
    if form == "list":
        return list(seq)
    if form == "tuple":
        return tuple(seq)
    if form == "iter":
        return iter(list(seq))
    return (x for x in list(seq))


def canon(v):
    if v is None or isinstance(v, (bool, int)):
        return repr(v)
    if isinstance(v, float):
        return "f" + repr(v)
    if isinstance(v, str):
        return "s" + repr(v)
    if isinstance(v, bytes):
        return "b" + repr(v)
    if isinstance(v, decimal.Decimal):
        return "D(%s)" % v
    if isinstance(v, datetime.datetime):
        return "dt(%s)" % v.isoformat()
    if isinstance(v, datetime.date):
        return "d(%s)" % v.isoformat()
    if isinstance(v, datetime.time):
        return "t(%s)" % v.isoformat()
    if isinstance(v, tuple):
        return "(" + ",".join(canon(x) for x in v) + ")"
    if isinstance(v, list):
        return "[" + ",".join(canon(x) for x in v) + "]"
    if isinstance(v, dict):
        return "{" + ",".join("%s:%s" % (canon(k), canon(x)) for k, x in v.items()) + "}"
    if isinstance(v, collections.abc.Mapping):
        return "M{" + ",".join("%s:%s" % (canon(k), canon(v[k])) for k in v) + "}"
    return "<%s>" % type(v).__name__


def exc_tok(e):
    return "E:" + type(e).__name__


def build_value(spec):
    k = spec[0]
    if k == "none":
        return None
    if k in ("int", "bool", "str"):
        return spec[1]
    if k == "float":
        return float(spec[1])
    if k == "dec":
        return decimal.Decimal(spec[1])
    if k == "bytes":
        return spec[1].encode()
    if k == "list":
        return [build_value(x) for x in spec[1]]
    if k == "tuple":
        return tuple(build_value(x) for x in spec[1])
    if k == "dict":
        return {a: build_value(b) for a, b in spec[1]}
    raise ValueError(k)


class PlainMapping(collections.abc.Mapping):
    def __init__(self, d):
        self._d = dict(d)

    def __getitem__(self, k):
        return self._d[k]

    def __iter__(self):
        return iter(self._d)

    def __len__(self):
        return len(self._d)


# ------------------------------------------------------------------ processors
def ref_proc(fn, c, value):
    if fn == "int_to_boolean":
        return None if value is None else bool(value)
    if fn == "to_str":
        return None if value is None else str(value)
    if fn == "to_float":
        return None if value is None else float(value)
    if fn == "str_to_datetime":
        return None if value is None else datetime.datetime.fromisoformat(value)
    if fn == "str_to_time":
        return None if value is None else datetime.time.fromisoformat(value)
    if fn == "str_to_date":
        return None if value is None else datetime.date.fromisoformat(value)
    if fn == "to_decimal":
        typ = decimal.Decimal if c["type"] == "Decimal" else str
        return None if value is None else typ(("%%.%df" % c["scale"]) % value)
    raise ValueError(fn)


def run_proc(c, mods):
    m = mods["sqlalchemy.engine._processors_cy"]
    value = build_value(c["arg"])
    fn = c["fn"]
    try:
        if fn == "to_decimal":
            typ = decimal.Decimal if c["type"] == "Decimal" else str
            got = m.to_decimal_processor_factory(typ, c["scale"])(value)
        else:
            got = getattr(m, fn)(value)
        out = canon(got)
    except Exception as e:  # noqa: BLE001
        out = exc_tok(e)
    try:
        exp = canon(ref_proc(fn, c, value))
    except Exception as e:  # noqa: BLE001
        exp = exc_tok(e)
    fail = None if out == exp else ["processor-%s-differs-from-reference" % fn, "arg %s -> %s expected %s" % (c["arg"], out, exp)]
    return {"out": out, "fail": fail}


# ------------------------------------------------------------------ engine/_util_cy
def build_param(spec, immutabledict):
    k = spec[0]
    if k == "none":
        return None
    if k == "list":
        return [build_param(x, immutabledict) for x in spec[1]]
    if k == "tuple":
        return tuple(build_param(x, immutabledict) for x in spec[1])
    if k == "dict":
        return {"a": 1} if spec[1] else {}
    if k == "imm":
        return immutabledict({"a": 1} if spec[1] else {})
    if k == "mapping":
        return PlainMapping({"a": 1} if spec[1] else {})
    if k == "int":
        return 5
    if k == "str":
        return "x"
    raise ValueError(k)


def _is_mapping(v):
    return isinstance(v, (dict, collections.abc.Mapping))


def ref_distill(fn, p):
    """reference: (result kind, payload) or ('E', 'ArgumentError'), plus the deprecation flag"""
    if fn == "20":
        if p is None:
            return ("empty-tuple", None), False
        if isinstance(p, (list, tuple)):
            if len(p) == 0:
                return ("same", None), True
            if not _is_mapping(p[0]):
                return ("E", "ArgumentError"), False
            return ("same", None), False
        if _is_mapping(p):
            return ("wrapped", None), False
        return ("E", "ArgumentError"), False
    if p is None:
        return ("empty-tuple", None), False
    if isinstance(p, list):
        if len(p) > 0 and not (_is_mapping(p[0]) or isinstance(p[0], tuple)):
            return ("E", "ArgumentError"), False
        return ("same", None), False
    if _is_mapping(p) or isinstance(p, tuple):
        return ("wrapped", None), False
    return ("E", "ArgumentError"), False


def run_distill(c, mods):
    m = mods["sqlalchemy.engine._util_cy"]
    imm = mods["sqlalchemy.util._immutabledict_cy"].immutabledict
    p = build_param(c["param"], imm)
    f = m._distill_params_20 if c["fn"] == "20" else m._distill_raw_params
    dep = False
    try:
        with warnings.catch_warnings(record=True) as w:
            warnings.simplefilter("always")
            r = f(p)
        dep = any("deprecat" in str(x.message).lower() for x in w)
        if r is p and p is not None:
            shape = "same"
        elif r == () and isinstance(r, tuple) and p is None:
            shape = "empty-tuple"
        elif isinstance(r, list) and len(r) == 1 and r[0] is p:
            shape = "wrapped"
        else:
            shape = "other:" + canon(r)
        out = "%s dep=%d" % (shape, dep)
    except Exception as e:  # noqa: BLE001
        shape = "E"
        out = exc_tok(e) + " dep=0"
    (eshape, ename), edep = ref_distill(c["fn"], p)
    exp = ("E:%s dep=0" % ename) if eshape == "E" else "%s dep=%d" % (eshape, edep)
    fail = None if out == exp else ["distill-params-%s-differs-from-reference" % c["fn"], "param %s -> %s expected %s" % (c["param"], out, exp)]
    return {"out": out, "fail": fail}


def run_tuplegetter(c, mods):
    m = mods["sqlalchemy.engine._util_cy"]
    idx = c["idx"]
    row = tuple(c["row"]) if c["rowtype"] == "tuple" else list(c["row"])
    try:
        g = m.tuplegetter(*idx)
        r = g(row)
        out = canon(tuple(r) if isinstance(r, (list, tuple)) else (r,))
    except Exception as e:  # noqa: BLE001
        out = exc_tok(e)
    exp = canon(tuple(row[i] for i in idx))
    fail = None if out == exp else ["tuplegetter-differs-from-itemgetter", "idx %s row %s -> %s expected %s" % (idx, row, out, exp)]
    return {"out": out, "req": "cyutil tuplegetter %s %s" % (",".join(map(str, idx)), ",".join(map(str, row)) or "-"), "fail": fail}


# ------------------------------------------------------------------ sql/_util_cy
def run_panon(c, mods):
    m = mods["sqlalchemy.sql._util_cy"]
    pm = m.prefix_anon_map()
    ref, counters = {}, {}
    outs, fail = [], None
    for ident, name in c["keys"]:
        key = "%d n%d" % (ident, name)
        try:
            got = pm[key]
        except Exception as e:  # noqa: BLE001
            got = exc_tok(e)
        if key not in ref:
            n = counters.get(name, 1)
            counters[name] = n + 1
            ref[key] = "n%d_%d" % (name, n)
        outs.append(got)
        if got != ref[key] and fail is None:
            fail = ["prefix-anon-map-differs-from-reference", "key %r -> %r expected %r" % (key, got, ref[key])]
    # canonical: values as (name, counter) pairs
    toks = []
    for g in outs:
        if isinstance(g, str) and g.startswith("n") and "_" in g:
            a, b = g[1:].split("_", 1)
            toks.append("%s.%s" % (a, b))
        else:
            toks.append(str(g))
    return {"out": " ".join(toks), "req": "cyutil panon " + " ".join("%d.%d" % (i, n) for i, n in c["keys"]), "fail": fail}


def run_anon(c, mods):
    m = mods["sqlalchemy.sql._util_cy"]
    am = m.anon_map()
    objs = [object() for _ in range(8)]
    ref = {}
    outs, fail = [], None
    for op in c["ops"]:
        kind, k = op
        try:
            if kind == "obj":
                idx, seen = am.get_anon(objs[k])
                got = "%d%s" % (idx, "T" if seen else "F")
                rk = ("o", k)
            else:
                got = "%d" % am["k%d" % k]
                rk = ("k", k)
        except Exception as e:  # noqa: BLE001
            got = exc_tok(e)
            rk = None
        if rk is not None:
            seen = rk in ref
            if not seen:
                ref[rk] = len(ref)
            exp = "%d%s" % (ref[rk], ("T" if seen else "F") if kind == "obj" else "")
            if got != exp and fail is None:
                fail = ["anon-map-differs-from-reference", "op %s -> %s expected %s" % (op, got, exp)]
        outs.append(got)
    req = "cyutil anon " + " ".join(("o%d" if kind == "obj" else "k%d") % k for kind, k in c["ops"])
    return {"out": " ".join(outs), "req": req, "fail": fail}


# ------------------------------------------------------------------ rows and results
# "nz" does NOT map None to None (like a TypeDecorator.process_result_value supplying a default)
PROCS = {"none": None, "str": str, "neg": operator.neg, "dbl": lambda x: x * 2, "nz": lambda x: 77 if x is None else x}
NONE_OK = ("none", "nz", "str")


def make_result(c):
    from sqlalchemy.engine.result import IteratorResult, SimpleResultMetaData

    keys = c["keys"]
    procs = None
    if c.get("procs"):
        procs = [PROCS[p] for p in c["procs"]]
    md = SimpleResultMetaData(keys, _processors=procs)
    rows = [tuple(r) if c.get("rowtype", "tuple") == "tuple" else list(r) for r in c["rows"]]
    return IteratorResult(md, iter(rows)), rows


def apply_procs(c, row):
    if not c.get("procs"):
        return tuple(row)
    return tuple(v if PROCS[p] is None else PROCS[p](v) for p, v in zip(c["procs"], row))


def run_row(c, mods):
    res, rows = make_result(c)
    if c.get("direct"):
        # Row built directly (BaseRow.__init__ applies the processors itself: _row_cy._apply_processors)
        from sqlalchemy.engine.row import Row

        md = res._metadata
        procs = [PROCS[p] for p in c["procs"]] if c.get("procs") else None
        row = Row(md, procs, md._key_to_index, rows[0])
    else:
        row = res.one()
    exp = apply_procs(c, rows[0])
    keys = c["keys"]
    outs, fail = [], None

    def bad(what, detail):
        nonlocal fail
        if fail is None:
            fail = ["row-%s-differs-from-tuple" % what, detail]

    for op in c["ops"]:
        n = op[0]
        e = None
        try:
            if n == "len":
                g = len(row)
                e = len(exp)
            elif n == "iter":
                g = tuple(iter(row))
                e = exp
            elif n == "get":
                try:
                    e = exp[op[1]]
                except IndexError:
                    e = "E:IndexError"
                g = row[op[1]]
            elif n == "slice":
                s = slice(op[1], op[2], op[3])
                try:
                    e = exp[s]
                except ValueError:
                    e = "E:ValueError"
                g = row[s]
            elif n == "attr":
                e = exp[keys.index(op[1])] if op[1] in keys else "E:AttributeError"
                g = getattr(row, op[1])
            elif n == "map":
                e = exp[keys.index(op[1])] if op[1] in keys else "E:KeyError"
                g = row._mapping[op[1]]
            elif n == "in":
                g = op[1] in row
                e = op[1] in exp
            elif n == "hash":
                g = hash(row) == hash(exp)
                e = True
            elif n == "eq":
                g = (row == exp, row == exp + (0,), row != exp, exp == row)
                e = (True, False, False, True)
            elif n == "cmp":
                o = tuple(op[1])
                g = (row < o, row <= o, row > o, row >= o)
                e = (exp < o, exp <= o, exp > o, exp >= o)
            elif n == "setattr":
                e = "E:AttributeError"
                setattr(row, op[1], 1)
                g = "no-error"
            elif n == "delattr":
                e = "E:AttributeError"
                delattr(row, op[1])
                g = "no-error"
            elif n == "pickle":
                r2 = pickle.loads(pickle.dumps(row))
                g = (tuple(r2), type(r2).__name__, r2 == row, tuple(r2._fields))
                e = (exp, "Row", True, tuple(keys))
            elif n == "asdict":
                g = row._asdict()
                e = dict(zip(keys, exp))
            elif n == "fields":
                g = tuple(row._fields)
                e = tuple(keys)
            elif n == "tuple":
                g = row._tuple() is row, tuple(row._t)
                e = (True, exp)
            elif n == "repr":
                g = repr(row)
                e = repr(exp)
            elif n == "mapping-items":
                g = (tuple(row._mapping.keys()), tuple(row._mapping.values()), len(row._mapping))
                e = (tuple(keys), exp, len(keys))
            else:
                raise ValueError(n)
            tok = canon(g)
        except Exception as ex:  # noqa: BLE001
            tok = exc_tok(ex)
        outs.append(tok)
        etok = e if isinstance(e, str) and e.startswith("E:") else canon(e)
        if tok != etok:
            bad(n, "op %s on row %s -> %s expected %s" % (op, exp, tok, etok))
    # independence of the Row from the raw row it was built from: the raw row is not modified, and
    # modifying a (list) raw row afterwards is not visible through the Row
    try:
        if [list(x) for x in rows] != [list(x) for x in c["rows"]]:
            bad("input", "raw row modified: %r -> %r" % (c["rows"], rows))
        elif isinstance(rows[0], list):
            rows[0].append(5)
            rows[0][0] = 123
            rows[0].reverse()
            if tuple(row) != exp or len(row) != len(exp):
                bad("aliasing", "Row changed to %r when the raw list row was modified afterwards" % (tuple(row),))
    except Exception as ex:  # noqa: BLE001
        bad("aliasing", exc_tok(ex))
    r = {"out": " ".join(outs), "fail": fail}
    req = row_request(c)
    if req:
        r["req"] = req
    return r


# every way one raw row reaches the caller: (name, view, function of a fresh 1-row result)
AP_PATHS = [
    ("one", "t", lambda r, k: r.one()),
    ("first", "t", lambda r, k: r.first()),
    ("fetchone", "t", lambda r, k: r.fetchone()),
    ("fetchmany", "t", lambda r, k: r.fetchmany(1)[0]),
    ("all", "t", lambda r, k: r.all()[0]),
    ("iter", "t", lambda r, k: next(iter(r))),
    ("partitions", "t", lambda r, k: next(r.partitions(1))[0]),
    ("yield_per", "t", lambda r, k: r.yield_per(1).fetchmany()[0]),
    ("unique", "t", lambda r, k: r.unique().all()[0]),
    ("unique-one", "t", lambda r, k: r.unique().one()),
    ("columns", "t", lambda r, k: r.columns(*range(k)).one()),
    ("tuples", "t", lambda r, k: r.tuples().one()),
    ("freeze", "t", lambda r, k: r.freeze()().one()),
    ("scalars", "s", lambda r, k: r.scalars(k - 1).one()),
    ("scalars-all", "s", lambda r, k: r.scalars(k - 1).all()[0]),
    ("scalar", "s0", lambda r, k: r.scalar()),
    ("scalar_one", "s0", lambda r, k: r.scalar_one()),
    # the ORM loading path (interim rows): plain processed tuples (or Rows), never the raw sequence
    ("raw_all_tuples", "T", lambda r, k: r._raw_all_tuples()[0]),
    ("mappings", "m", lambda r, k: dict(r.mappings().one())),
    ("mappings-all", "m", lambda r, k: dict(r.mappings().all()[0])),
    ("mappings-unique", "m", lambda r, k: dict(r.mappings().unique().all()[0])),
]


def run_applyprocs(c, mods):
    """one raw row (NULLs allowed) x one processors tuple (incl. a processor that does not map NULL
    to NULL) delivered through every fetch path, and through a directly constructed Row"""
    from sqlalchemy.engine.row import Row

    nk = len(c["keys"])
    exp = apply_procs(c, c["row"])
    outs, views, fail = [], [], None

    def note(name, view, g):
        nonlocal fail
        if view == "T":
            view = "t"
            if not isinstance(g, (tuple, Row)) and fail is None:
                fail = ["apply-processors-%s-not-a-tuple" % name, "interim row is a %s" % type(g).__name__]
            if isinstance(g, list):
                g = "<list>"
        if view == "t":
            e = exp
            g = tuple(g) if isinstance(g, (tuple, Row)) else g
        elif view == "m":
            e = dict(zip(c["keys"], exp))
        elif view == "s0":
            e = exp[0]
        else:
            e = exp[nk - 1]
        views.append("s%d" % (nk - 1) if view == "s" else view)
        outs.append(canon(g))
        if canon(g) != canon(e) and fail is None:
            fail = ["apply-processors-%s-differs-from-reference" % name, "procs %s raw row %s via %s -> %s expected %s" % (c["procs"], c["row"], name, canon(g), canon(e))]

    for name, view, f in AP_PATHS:
        res, rows = make_result(dict(c, rows=[c["row"]]))
        if name == "raw_all_tuples" and not hasattr(res, "_raw_all_tuples"):
            continue
        try:
            g = f(res, nk)
        except Exception as ex:  # noqa: BLE001
            g = exc_tok(ex)
        note(name, view, g)
        if [list(x) for x in rows] != [list(c["row"])] and fail is None:
            fail = ["apply-processors-%s-modifies-raw-row" % name, "%s -> %s" % (c["row"], rows)]
    res, rows = make_result(dict(c, rows=[c["row"]]))
    md = res._metadata
    try:
        g = Row(md, [PROCS[p] for p in c["procs"]] if c.get("procs") else None, md._key_to_index, rows[0])
    except Exception as ex:  # noqa: BLE001
        g = exc_tok(ex)
    note("direct-row", "t", g)
    ptok = "N" if not c.get("procs") else ".".join({"none": "n", "neg": "g", "dbl": "d", "nz": "z"}[p] for p in c["procs"])
    req = "cyutil applyprocs %s %s %s" % (ptok, ".".join("N" if v is None else str(v) for v in c["row"]) or "-", " ".join(views))
    return {"out": " ".join(outs), "req": req, "fail": fail}


def gen_applyprocs(rng):
    nk = rng.randint(1, 4)
    procs = None if rng.random() < 0.15 else [rng.choice(["none", "neg", "dbl", "nz", "nz"]) for _ in range(nk)]
    row = []
    for i in range(nk):
        nullable = procs is None or procs[i] in ("none", "nz")
        row.append(None if nullable and rng.random() < 0.5 else rng.choice([0, 1, 2, 7, 77, -1]))
    return {"kind": "applyprocs", "keys": ["c%d" % i for i in range(nk)], "procs": procs, "row": row, "rowtype": rng.choice(["tuple", "list"])}


def row_request(c):
    """request line for the Lean M-ROW driver (integer values, none/neg/dbl processors)"""
    procs = c.get("procs")
    if procs and any(p in ("str", "nz") for p in procs):
        return None
    if any(v is None for v in c["rows"][0]):
        return None
    ptok = "N" if not procs else ".".join({"none": "n", "neg": "g", "dbl": "d"}[p] for p in procs)
    toks = []
    for op in c["ops"]:
        n = op[0]
        if n == "get":
            toks.append("get:%d" % op[1])
        elif n == "slice":
            toks.append("slice:%s:%s:%s" % tuple("N" if x is None else str(x) for x in op[1:4]))
        elif n in ("attr", "map"):
            toks.append("%s:%s" % (n, op[1]))
        elif n == "in":
            toks.append("in:%d" % op[1])
        elif n == "cmp":
            toks.append("cmp:%s" % (".".join(str(x) for x in op[1]) or "-"))
        else:
            toks.append(n)
    row = c["rows"][0]
    return "row %d %s %s %s" % (len(c["keys"]), ptok, ".".join(str(x) for x in row) or "-", " ".join(toks))


_SQL = {}


def sql_env():
    """one in-memory SQLite engine with a typed table: Boolean / DateTime / Numeric columns make the
    cursor result run the result processors of engine/_processors_cy on every fetched row"""
    if _SQL:
        return _SQL
    import sqlalchemy as sa

    eng = sa.create_engine("sqlite://")
    md = sa.MetaData()
    t = sa.Table(
        "c55", md,
        sa.Column("id", sa.Integer, primary_key=True),
        sa.Column("b", sa.Boolean),
        sa.Column("s", sa.String),
        sa.Column("d", sa.DateTime),
        sa.Column("n", sa.Numeric(10, 2)),
    )
    md.create_all(eng)
    _SQL.update(eng=eng, t=t, sa=sa, conn=eng.connect())
    return _SQL


def make_sql_result(c):
    E = sql_env()
    sa, t, conn = E["sa"], E["t"], E["conn"]
    conn.execute(t.delete())
    exp = []
    for i, (b, sv, d, n) in enumerate(c["rows"]):
        dv = None if d is None else datetime.datetime.fromisoformat(d)
        nv = None if n is None else decimal.Decimal(n)
        conn.execute(t.insert(), {"id": i, "b": b, "s": sv, "d": dv, "n": nv})
        exp.append((b, sv, dv, nv))
    res = conn.execute(sa.select(t.c.b, t.c.s, t.c.d, t.c.n).order_by(t.c.id))
    return res, exp


def run_result(c, mods):
    if c["kind"] == "sqlresult":
        with warnings.catch_warnings():
            warnings.simplefilter("ignore")
            res, exp_rows = make_sql_result(c)
    else:
        res, rows = make_result(c)
        exp_rows = [apply_procs(c, r) for r in rows]
        raw_rows = rows
    keys = c["keys"]
    flt = c.get("filter", ["none"])
    uniq = c.get("unique", False)
    try:
        if uniq:
            # "str" exercises the strategy branches: same equivalence classes as plain equality
            res = res.unique(strategy=str) if c.get("unique_strategy") == "str" else res.unique()
        if c.get("yield_per"):
            res = res.yield_per(c["yield_per"])
        if flt[0] == "scalars":
            res = res.scalars(flt[1])
        elif flt[0] == "mappings":
            res = res.mappings()
        elif flt[0] == "columns":
            res = res.columns(*flt[1])
    except Exception as e:  # noqa: BLE001
        return {"out": "setup-" + exc_tok(e), "fail": None}

    def shape(r):
        if flt[0] == "scalars":
            return r[flt[1]]
        if flt[0] == "mappings":
            return dict(zip(keys, r))
        if flt[0] == "columns":
            return tuple(r[i] for i in flt[1])
        return tuple(r)

    def cv(x):
        if x is None:
            return None
        if flt[0] == "scalars":
            return x
        if flt[0] == "mappings":
            return dict(x)
        return tuple(x)

    # reference stream: rows in order, shaped, de-duplicated on the shaped value when unique
    stream, seen = [], set()
    for r in exp_rows:
        s = shape(r)
        if uniq:
            hk = tuple(sorted(s.items())) if isinstance(s, dict) else s
            if hk in seen:
                continue
            seen.add(hk)
        stream.append(s)
    pos = 0
    outs, fail = [], None

    def bad(what, detail):
        nonlocal fail
        if fail is None:
            fail = ["result-%s-differs-from-row-stream" % what, detail]

    def sc(v):
        # a NULL first column and "no row" are both reported as None by scalar()
        return None if v is None else ("s", v)

    closed = False
    for op in c["ops"]:
        n = op[0]
        # reference first (pure), then the real call
        rest = stream[pos:]
        if n == "fetchone":
            e = rest[0] if rest else None
            adv = 1 if rest else 0
        elif n == "fetchmany":
            k = op[1] if op[1] is not None else c["yield_per"]
            e = rest[:k]
            adv = len(e)
        elif n in ("all", "iter"):
            e = rest
            adv = len(rest)
        elif n == "partitions":
            e = [rest[i : i + op[1]] for i in range(0, len(rest), op[1])]
            adv = len(rest)
        elif n == "first":
            e = rest[0] if rest else None
            adv, closed = 0, True
        elif n == "one_or_none":
            e = "E:MultipleResultsFound" if len(rest) > 1 else (rest[0] if rest else None)
            adv, closed = 0, True
        elif n == "one":
            e = "E:MultipleResultsFound" if len(rest) > 1 else (rest[0] if rest else "E:NoResultFound")
            adv, closed = 0, True
        elif n == "scalar":
            e = sc(rest[0][0]) if rest else None
            adv, closed = 0, True
        elif n == "scalar_one":
            e = "E:MultipleResultsFound" if len(rest) > 1 else (sc(rest[0][0]) if rest else "E:NoResultFound")
            adv, closed = 0, True
        elif n == "scalar_one_or_none":
            e = "E:MultipleResultsFound" if len(rest) > 1 else (sc(rest[0][0]) if rest else None)
            adv, closed = 0, True
        else:
            raise ValueError(n)
        pos += adv
        try:
            if n == "fetchone":
                g = cv(res.fetchone())
            elif n == "fetchmany":
                g = [cv(x) for x in res.fetchmany(op[1])]
            elif n == "all":
                g = [cv(x) for x in res.all()]
            elif n == "partitions":
                g = [[cv(x) for x in part] for part in res.partitions(op[1])]
            elif n == "iter":
                g = [cv(x) for x in res]
            elif n == "first":
                g = cv(res.first())
            elif n == "one_or_none":
                g = cv(res.one_or_none())
            elif n in ("scalar", "scalar_one", "scalar_one_or_none"):
                v = getattr(res, n)()
                g = None if v is None else ("s", v)
            else:
                g = cv(res.one())
            tok = canon(g)
        except Exception as ex:  # noqa: BLE001
            tok = exc_tok(ex)
        outs.append(tok)
        etok = e if isinstance(e, str) and e.startswith("E:") else canon(e)
        if tok != etok:
            bad(n, "op %s (filter %s unique %s) -> %s expected %s" % (op, flt, uniq, tok, etok))
        if closed:
            break
    if c["kind"] != "sqlresult" and [list(x) for x in raw_rows] != [list(x) for x in c["rows"]]:
        bad("input", "raw rows modified by fetching: %r -> %r" % (c["rows"], raw_rows))
    return {"out": " ".join(outs), "fail": fail}


def run_case(c, mods):
    k = c["kind"]
    if k == "proc":
        return run_proc(c, mods)
    if k == "distill":
        return run_distill(c, mods)
    if k == "tuplegetter":
        return run_tuplegetter(c, mods)
    if k == "panon":
        return run_panon(c, mods)
    if k == "anon":
        return run_anon(c, mods)
    if k == "row":
        return run_row(c, mods)
    if k in ("result", "sqlresult"):
        return run_result(c, mods)
    if k == "applyprocs":
        return run_applyprocs(c, mods)
    raise ValueError(k)


# ------------------------------------------------------------------ generators
ISO_DT = ["2024-02-29 13:45:10", "2024-02-29T13:45:10.123456", "1999-12-31 23:59:59.5", "2024-01-01", "2024-02-30 00:00:00",
          "2024-13-01 00:00:00", "", "abc", "2024-02-29 24:00:00", "2024-02-29 13:45:10+02:00", "0001-01-01 00:00:00"]
ISO_T = ["13:45:10", "13:45:10.123456", "00:00", "23:59:59.999999", "24:00:00", "", "abc", "13:45:10+01:00", "7:05:00"]
ISO_D = ["2024-02-29", "2023-02-29", "0001-01-01", "9999-12-31", "2024-2-9", "", "abc", "20240229", "2024-02-29 00:00:00"]


def gen_proc(rng):
    fn = rng.choice(["int_to_boolean", "to_str", "to_float", "str_to_datetime", "str_to_time", "str_to_date", "to_decimal", "to_decimal"])
    if rng.random() < 0.12:
        arg = ["none"]
    elif fn == "int_to_boolean":
        arg = rng.choice([["int", 0], ["int", 1], ["int", 2], ["int", -1], ["bool", True], ["bool", False], ["str", ""], ["str", "0"], ["float", "0.0"], ["list", []]])
    elif fn == "to_str":
        arg = rng.choice([["int", 5], ["float", "1.5"], ["str", "x"], ["bytes", "ab"], ["dec", "1.10"], ["bool", True], ["list", [["int", 1]]]])
    elif fn == "to_float":
        arg = rng.choice([["str", "1.5"], ["int", 2], ["dec", "1.25"], ["str", "abc"], ["str", ""], ["float", "2.5"], ["str", " 3 "], ["list", []], ["bool", True], ["str", "1e3"], ["str", "nan"]])
    elif fn == "str_to_datetime":
        arg = rng.choice([["str", s] for s in ISO_DT] + [["int", 5], ["bytes", "2024-01-01"]])
    elif fn == "str_to_time":
        arg = rng.choice([["str", s] for s in ISO_T] + [["int", 5]])
    elif fn == "str_to_date":
        arg = rng.choice([["str", s] for s in ISO_D] + [["int", 5]])
    else:
        arg = rng.choice([["float", "1.005"], ["float", "2.675"], ["int", 3], ["dec", "1.255"], ["float", "-0.0004"], ["str", "x"], ["float", "1e20"], ["float", "0.1"], ["bool", True], ["float", "123456.789"], ["int", 0], ["float", "0.0"], ["bool", False], ["float", "-0.0"], ["dec", "0"]])
    c = {"kind": "proc", "fn": fn, "arg": arg}
    if fn == "to_decimal":
        c["scale"] = rng.choice([0, 1, 2, 4, 10])
        c["type"] = rng.choice(["Decimal", "Decimal", "str"])
    return c


def gen_param(rng, depth=0):
    kinds = ["none", "dict", "imm", "mapping", "int", "str", "list", "tuple"]
    k = rng.choice(kinds if depth == 0 else ["dict", "imm", "mapping", "int", "str", "tuple", "list"])
    if k in ("dict", "imm", "mapping"):
        return [k, rng.random() < 0.7]
    if k in ("list", "tuple"):
        if depth >= 1:
            return [k, [["int"]] if rng.random() < 0.5 else []]
        return [k, [gen_param(rng, depth + 1) for _ in range(rng.choice([0, 1, 1, 2, 3]))]]
    return [k]


def gen_cases(rng, n):
    out = []
    for _ in range(n):
        w = rng.random()
        if w < 0.04:
            out.append(gen_applyprocs(rng))
        elif w < 0.22:
            out.append(gen_proc(rng))
        elif w < 0.34:
            out.append({"kind": "distill", "fn": rng.choice(["20", "raw"]), "param": gen_param(rng)})
        elif w < 0.42:
            ln = rng.randint(1, 6)
            k = rng.choice([1, 1, 2, 3, 4])
            if rng.random() < 0.5:
                a = rng.randrange(ln)
                idx = list(range(a, min(ln, a + k)))
            else:
                idx = [rng.randrange(ln) for _ in range(k)]
            out.append({"kind": "tuplegetter", "idx": idx, "row": [rng.randrange(50) for _ in range(ln)], "rowtype": rng.choice(["tuple", "tuple", "list"])})
        elif w < 0.50:
            out.append({"kind": "panon", "keys": [[rng.randrange(5), rng.randrange(3)] for _ in range(rng.randint(1, 10))]})
        elif w < 0.58:
            out.append({"kind": "anon", "ops": [[rng.choice(["obj", "key"]), rng.randrange(5)] for _ in range(rng.randint(1, 10))]})
        elif w < 0.78:
            nk = rng.randint(1, 4)
            keys = ["c%d" % i for i in range(nk)]
            row = [rng.choice([0, 1, 2, 3, 7, -1]) for _ in range(nk)]
            procs = None if rng.random() < 0.5 else [rng.choice(["none", "none", "str", "neg", "dbl", "nz", "nz"]) for _ in range(nk)]
            has_none = False
            for ci in range(nk):
                if (procs is None or procs[ci] in NONE_OK) and rng.random() < 0.3:
                    row[ci] = None  # NULL raw value (with "nz": the processor must still be applied)
                    has_none = True
            ops = []
            for _ in range(rng.randint(2, 8)):
                o = rng.choice(["len", "iter", "get", "get", "slice", "attr", "attr", "map", "in", "hash", "eq", "cmp", "setattr", "delattr", "pickle", "asdict", "fields", "tuple", "repr", "mapping-items"])
                if o == "get":
                    ops.append(["get", rng.choice([0, 1, -1, nk - 1, nk, -nk, -nk - 1, 9])])
                elif o == "slice":
                    ops.append(["slice", rng.choice([None, 0, 1, -1, -5, 5]), rng.choice([None, 0, 1, 2, -1, 9]), rng.choice([None, 1, -1, 2, 0])])
                elif o in ("attr", "map", "setattr", "delattr"):
                    ops.append([o, rng.choice(keys + ["zz"])])
                elif o == "in":
                    ops.append(["in", rng.choice([0, 1, 7, 99])])
                elif o == "cmp":
                    ops.append(["cmp", [rng.choice([0, 1, 2, 7]) for _ in range(rng.choice([nk, nk, nk - 1, nk + 1]))]])
                else:
                    ops.append([o])
            if has_none or (procs and any(p == "str" for p in procs)):
                ops = [o for o in ops if o[0] != "cmp"]
            out.append({"kind": "row", "keys": keys, "rows": [row], "procs": procs, "rowtype": rng.choice(["tuple", "list"]), "ops": ops, "direct": rng.random() < 0.5})
        else:
            nk = rng.randint(1, 3)
            keys = ["c%d" % i for i in range(nk)]
            nrows = rng.choice([0, 1, 2, 3, 4, 5, 6])
            rows = [[rng.randrange(3) for _ in range(nk)] for _ in range(nrows)]
            c = {"kind": "result", "keys": keys, "rows": rows, "rowtype": rng.choice(["tuple", "list"])}
            if rng.random() < 0.4:
                c["procs"] = [rng.choice(["none", "neg", "dbl", "nz", "nz"]) for _ in range(nk)]
                for r in rows:
                    for ci in range(nk):
                        if c["procs"][ci] in NONE_OK and rng.random() < 0.3:
                            r[ci] = None
            f = rng.random()
            if f < 0.2:
                c["filter"] = ["scalars", rng.randrange(nk)]
            elif f < 0.35:
                c["filter"] = ["mappings"]
            elif f < 0.5:
                c["filter"] = ["columns", [rng.randrange(nk) for _ in range(rng.randint(1, 2))]]
            c["unique"] = rng.random() < 0.3
            if c["unique"] and rng.random() < 0.5:
                c["unique_strategy"] = "str"
            if not c["unique"] and rng.random() < 0.3:
                c["yield_per"] = rng.choice([1, 2, 3])
            ops = []
            for _ in range(rng.randint(1, 5)):
                o = rng.choice(["fetchone", "fetchone", "fetchmany", "fetchmany", "all", "first", "one", "one_or_none", "partitions", "iter"])
                if o == "fetchmany":
                    ops.append(["fetchmany", rng.choice([1, 2, 3, 10] + ([None] if c.get("yield_per") else []))])
                elif o == "partitions":
                    ops.append(["partitions", rng.choice([1, 2, 3])])
                else:
                    ops.append([o])
            if c.get("filter", ["none"])[0] in ("none", "columns") and rng.random() < 0.25:
                ops.append([rng.choice(["scalar", "scalar_one", "scalar_one_or_none"])])
            if c.get("filter", ["none"])[0] == "scalars":
                ops = [(["fetchmany", 1] if o[0] == "fetchone" else o) for o in ops]  # ScalarResult has no fetchone()
            if c["unique"]:
                # after unique() only whole-stream or single-row accessors are compared with the reference;
                # partial fetches followed by first()/one() are the known finding F17 of C10
                single = ("first", "one", "one_or_none", "scalar", "scalar_one", "scalar_one_or_none")
                if any(o[0] in single for o in ops[1:]):
                    ops = [o for o in ops if o[0] not in single] or [["all"]]
            c["ops"] = ops
            out.append(c)
            if rng.random() < 0.3:
                # the same access pattern on a real SQLite cursor result with typed columns
                sc = dict(c, kind="sqlresult", keys=["b", "s", "d", "n"])
                sc.pop("procs", None)
                sc.pop("rowtype", None)
                nrows = len(c["rows"])
                sc["rows"] = [[rng.choice([True, False, None]), rng.choice(["x", "y", "", None]),
                               rng.choice(["2024-02-29T13:45:10", "1999-12-31T23:59:59.500000", "2024-01-01T00:00:00", None]),
                               rng.choice(["1.25", "10.00", "-3.50", "0.10", "0.00", None])] for _ in range(nrows)]
                if sc.get("filter", ["none"])[0] == "scalars":
                    sc["filter"] = ["scalars", rng.randrange(4)]
                elif sc.get("filter", ["none"])[0] == "columns":
                    sc["filter"] = ["columns", [rng.randrange(4) for _ in range(rng.randint(1, 2))]]
                out.append(sc)
    return out
