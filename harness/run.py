"""Entry point: ./check Cxx [--tier quick|thorough] [--replay path]

exit 0 = property held on everything explored
exit 1 = VIOLATION line printed
exit 2 = infrastructure failure / timeout
"""
import argparse
import importlib
import json
import os
import sys
import traceback

sys.path.insert(0, os.path.dirname(os.path.dirname(os.path.abspath(__file__))))
from harness import vlib  # noqa: E402


def main():
    ap = argparse.ArgumentParser()
    ap.add_argument("pid")
    ap.add_argument("--tier", default=os.environ.get("VERIF_TIER", "quick"))
    ap.add_argument("--replay")
    a = ap.parse_args()
    pid = a.pid.upper()
    tier = a.tier if a.tier in ("quick", "thorough") else "quick"
    try:
        seed = int(os.environ.get("VERIF_SEED", "0"))
    except ValueError:
        seed = 0
    vlib.source_mode()
    os.environ.setdefault("PYTHONHASHSEED", "0")
    mod = importlib.import_module("harness.props." + pid.lower())
    ctx = vlib.Ctx(pid, tier, seed, getattr(mod, "LEVEL", "proof"))
    if a.replay:
        obj = json.load(open(a.replay))
        if not obj.get("failing_input_found"):
            print("replay file names broken obligations only (no failing input was found):")
            print(json.dumps(obj.get("broken_obligations"), indent=1)[:3000])
            return 0
        still = mod.replay(ctx, obj)
        if still:
            print("VIOLATION property=%s replay=%s" % (pid, a.replay))
            return 1
        print("replay no longer fails")
        return 0
    try:
        if hasattr(mod, "gen"):
            mod.gen(ctx)
        ctx.prove(getattr(mod, "LEAN", []))
        mod.run(ctx)
        return ctx.finish(mod)
    except Exception:
        traceback.print_exc()
        print("INFRA-ERROR property=%s" % pid)
        return 2


if __name__ == "__main__":
    sys.exit(main())
